module verif.local

go 1.26

require (
	github.com/TeaEntityLab/fpGo/v2 v2.0.0
	github.com/anishathalye/porcupine v1.3.0
	verif.local/simrt v0.0.0
)

replace github.com/TeaEntityLab/fpGo/v2 => /repo

replace verif.local/simrt => ./simrt
