// Package simrt is the deterministic simulation runtime.
//
// All simulated threads are real goroutines inside one testing/synctest
// bubble. Exactly one of them runs at any time; the others are parked on
// their gate, durably blocked inside a channel / timer / WaitGroup
// operation, or finished. The scheduler is the bubble's root goroutine:
// it releases one thread, calls synctest.Wait (all other goroutines are
// then durably blocked), inspects the thread states and draws the next
// decision from the tape. Virtual time advances only while the scheduler
// itself is blocked on a bubble timer.
package simrt

import (
	"fmt"
	"runtime"
	"runtime/debug"
	"sort"
	"strings"
	"sync"
	"sync/atomic"
	"testing"
	"testing/synctest"
	"time"
)

const (
	stParked  int32 = 1
	stRunning int32 = 2
	stExited  int32 = 3
)

// Thread is one simulated thread.
type Thread struct {
	ID    int
	Name  string
	Lib   bool // created by a `go` statement of the code under test
	sim   *Sim
	gate  chan struct{}
	state atomic.Int32
	// desched is set by the scheduler when it finds the thread durably
	// blocked inside an operation; U parks the thread when it wakes.
	desched atomic.Bool

	site      int32 // last hook site
	opSite    int32 // site of the blocking operation in progress
	budget    int
	ready     func() bool
	deadline  time.Duration
	lockWait  bool
	noPreempt bool
	lastRun   int
	opSeq     uint64
	opCur     uint64
	prio      int

	Blocks     int // number of times the scheduler found the thread durably blocked in an operation
	PanicVal   interface{}
	PanicStack string
	BlockedAt  int32 // set at the end of the run if still blocked
}

// LastSite returns the site of the last hook the thread passed.
func (th *Thread) LastSite() int32 { return th.site }

// Done reports whether the thread has exited.
func (th *Thread) Done() bool { return th.state.Load() == stExited }

// Blocked reports whether the thread is durably blocked in an operation.
func (th *Thread) Blocked() bool { return th.state.Load() == stRunning && th.desched.Load() }

// Event is an entry of the run's event log.
type Event struct {
	Seq    uint64
	T      time.Duration
	Thread int
	Kind   string
	Detail string
}

// Config bounds a run.
type Config struct {
	Horizon   time.Duration // virtual horizon of the whole run
	MaxSteps  int           // cap on scheduler decisions
	MaxYields int64         // cap on statement-level yields (a livelock in the code under test)
	Trace     bool          // keep a decision trace
	NoStall   bool          // never inject stalls
}

// Result is what a run leaves behind.
type Result struct {
	Reason   string // done | horizon | maxsteps
	Steps    int    // scheduler decisions
	Yields   int64  // statement-level hook calls
	Switches int    // decisions that changed the running thread
	Hash     uint64 // hash of the complete decision/event sequence
	SigHash  uint64 // hash of (thread,site) at context switches only
	VTime    time.Duration
	Threads  []*Thread
	Events   []Event
	Trace    []string
	Pairs    map[[2]int32]int // (site preempted at, site resumed at) at thread switches
	Faults   map[string]int
	Strategy string
	Panic    interface{} // panic of the scheduler itself (tool error)
	// Fatals: conditions that the Go runtime answers with an unrecoverable "fatal error" (the process dies);
	// the simulator intercepts them before they happen, records them here and panics in the offending thread
	Fatals []string
}

// Sim is one simulation.
type Sim struct {
	cfg      Config
	tape     *Tape
	threads  []*Thread
	running  *Thread
	arrive   chan struct{}
	poisoned atomic.Bool
	t0       time.Time
	seq      uint64
	steps    int
	yields   int64
	spins    int64 // for-loop iterations since the last scheduling point (see Spin)
	switches int
	hash     uint64
	sig      uint64
	events   []Event
	trace    []string
	pairs    map[[2]int32]int
	faults   map[string]int
	pools    map[*sync.Pool]*simPool
	wpending map[*sync.RWMutex]int // writers parked in Lock: new readers queue behind them (Go's RWMutex semantics)
	fatals   []string
	fair     bool
	overrun  bool
	last     *Thread

	// strategy (drawn from the tape at start)
	strat     int
	meanBud   int
	switchNum int // probability numerator (of 16) of leaving the current thread at a decision
	stallNum  int // of 256
	hotMod    uint32
	hotSeed   uint32
	poolReuse int // of 8
	Values    map[string]interface{}
}

var cur atomic.Pointer[Sim]

// siteHits accumulates, per worker process, which instrumentation sites were ever passed by a
// simulated thread (reach measurement: "this code was actually exercised").
var siteHits []uint8

// SiteHits returns the names of all registered sites and whether each was reached in this process.
func SiteHits() map[string]bool {
	siteMu.Lock()
	defer siteMu.Unlock()
	out := make(map[string]bool, len(siteNames))
	for id, n := range siteNames {
		out[n] = int(id) < len(siteHits) && siteHits[id] != 0
	}
	return out
}

var budgets = []int{1 << 20, 1, 2, 3, 4, 5, 6, 8, 10, 13, 16, 20, 25, 32, 40, 50, 64, 80, 100, 128, 160, 200, 256, 512, 1024, 4096}

var stallDur = []time.Duration{time.Microsecond, 50 * time.Microsecond, time.Millisecond, 7 * time.Millisecond, 60 * time.Millisecond, 900 * time.Millisecond, 11 * time.Second}

var stratNames = []string{"random", "sticky", "prio", "hotsite"}

// Run executes main as thread 0 of a fresh simulation inside a synctest
// bubble and returns when main has returned (or a cap was hit).
func Run(t *testing.T, cfg Config, tape *Tape, main func(s *Sim)) (res *Result) {
	if cfg.Horizon == 0 {
		cfg.Horizon = time.Hour
	}
	if cfg.MaxSteps == 0 {
		cfg.MaxSteps = 200000
	}
	if cfg.MaxYields == 0 {
		cfg.MaxYields = 30000000
	}
	s := &Sim{cfg: cfg, tape: tape, pairs: map[[2]int32]int{},
		faults: map[string]int{}, pools: map[*sync.Pool]*simPool{}, wpending: map[*sync.RWMutex]int{}, hash: 1469598103934665603, sig: 1469598103934665603,
		Values: map[string]interface{}{}}
	res = &Result{}
	defer func() {
		res.Steps = s.steps
		res.Yields = s.yields
		res.Switches = s.switches
		res.Hash = s.hash
		res.SigHash = s.sig
		res.Threads = s.threads
		res.Events = s.events
		res.Trace = s.trace
		res.Pairs = s.pairs
		res.Faults = s.faults
		res.Fatals = s.fatals
		res.Strategy = stratNames[s.strat]
	}()
	func() {
		defer func() {
			if r := recover(); r != nil {
				msg := fmt.Sprint(r)
				if strings.Contains(msg, "blocked goroutines remain") || strings.Contains(msg, "deadlock") {
					return // abandoned threads: expected
				}
				res.Panic = msg + "\n" + string(debug.Stack())
			}
		}()
		synctest.Test(t, func(t *testing.T) {
			cur.Store(s)
			s.loop(main, res)
		})
	}()
	return res
}

func (s *Sim) mix(vals ...uint64) {
	h := s.hash
	for _, v := range vals {
		for i := 0; i < 8; i++ {
			h ^= v & 0xff
			h *= 1099511628211
			v >>= 8
		}
	}
	s.hash = h
}

func (s *Sim) drawStrategy() {
	t := s.tape
	s.strat = t.ChooseW([]int{4, 2, 3, 3})
	mb := []int{1 << 20, 1, 2, 4, 8, 20, 60, 200}
	s.meanBud = mb[t.ChooseW([]int{1, 2, 3, 3, 3, 3, 2, 1})]
	s.switchNum = []int{0, 1, 2, 4, 8, 12, 16}[t.ChooseW([]int{0, 1, 2, 3, 3, 2, 2})]
	if s.cfg.NoStall {
		s.stallNum = 0
	} else {
		s.stallNum = []int{0, 1, 4, 16}[t.ChooseW([]int{6, 3, 2, 1})]
	}
	s.hotMod = []uint32{0, 2, 3, 5, 9}[t.ChooseW([]int{2, 1, 2, 2, 2})]
	s.hotSeed = uint32(t.Choose(1 << 16))
	s.poolReuse = t.Choose(9)
	if s.strat == 1 { // sticky
		s.meanBud = 1 << 20
		if s.switchNum > 2 {
			s.switchNum = 2
		}
	}
	if s.strat != 3 {
		s.hotMod = 0
	}
}

func (s *Sim) isHot(site int32) bool {
	if s.hotMod == 0 || site < 0 {
		return false
	}
	x := (uint32(site) + s.hotSeed) * 2654435761
	x ^= x >> 15
	return x%s.hotMod == 0
}

func (s *Sim) loop(main func(*Sim), res *Result) {
	s.arrive = make(chan struct{}, 1) // must be created inside the bubble (durable blocking)
	s.t0 = time.Now()
	s.drawStrategy()
	mainTh := s.spawn("main", false, -1, func() { main(s) })
	res.Reason = "done"
	for {
		synctest.Wait()
		s.observe()
		if mainTh.Done() {
			break
		}
		if s.overrun {
			res.Reason = "maxyields"
			break
		}
		if s.steps >= s.cfg.MaxSteps {
			res.Reason = "maxsteps"
			break
		}
		now := time.Since(s.t0)
		if now >= s.cfg.Horizon {
			res.Reason = "horizon"
			break
		}
		elig := s.eligible(now)
		if len(elig) == 0 {
			s.advance(now)
			continue
		}
		// stall fault: time passes although threads are runnable
		if s.stallNum > 0 && !s.fair {
			if s.tape.Bias(2, s.stallNum, 256) == 1 {
				d := stallDur[s.tape.Choose(len(stallDur))]
				s.faults["stall"]++
				s.mix(0xfa, uint64(d))
				if s.cfg.Trace {
					s.trace = append(s.trace, fmt.Sprintf("t=%v STALL %v", now, d))
				}
				time.Sleep(d)
				continue
			}
		}
		th := s.pick(elig)
		th.budget = s.drawBudget()
		if s.last != nil && s.last != th {
			s.switches++
			k := [2]int32{s.last.site, th.site}
			s.pairs[k]++
			h := s.sig
			for _, v := range []uint64{uint64(th.ID), uint64(uint32(th.site))} {
				h ^= v
				h *= 1099511628211
			}
			s.sig = h
		}
		s.mix(uint64(th.ID), uint64(uint32(th.site)), uint64(th.budget), uint64(now))
		if s.cfg.Trace {
			s.trace = append(s.trace, fmt.Sprintf("t=%v step=%d run T%d(%s) at %s budget=%d", now, s.steps, th.ID, th.Name, SiteName(th.site), th.budget))
		}
		s.steps++
		th.lastRun = s.steps
		s.last = th
		s.running = th
		th.lockWait = false
		th.state.Store(stRunning)
		th.gate <- struct{}{}
	}
	res.VTime = time.Since(s.t0)
	for _, th := range s.threads {
		th.BlockedAt = -9
		if th.Blocked() || (th.state.Load() == stParked && th.lockWait) {
			th.BlockedAt = th.opSite
		}
	}
	// teardown: poison every hook; release parked threads so they Goexit.
	s.poisoned.Store(true)
	for _, th := range s.threads {
		if th.state.Load() == stParked {
			select {
			case th.gate <- struct{}{}:
			default:
			}
		}
	}
	synctest.Wait()
}

// observe marks threads that are neither parked nor exited after a Wait as
// descheduled (durably blocked inside an operation).
func (s *Sim) observe() {
	for _, th := range s.threads {
		if th.state.Load() == stRunning && !th.desched.Load() {
			th.desched.Store(true)
			th.Blocks++
			s.mix(0xb10c, uint64(th.ID), uint64(uint32(th.opSite)))
			if s.cfg.Trace {
				s.trace = append(s.trace, fmt.Sprintf("  T%d(%s) blocked at %s", th.ID, th.Name, SiteName(th.opSite)))
			}
		}
	}
}

func (s *Sim) eligible(now time.Duration) []*Thread {
	var out []*Thread
	for _, th := range s.threads {
		if th.state.Load() != stParked {
			continue
		}
		if th.ready != nil {
			if !(th.ready() || (th.deadline > 0 && now >= th.deadline)) {
				continue
			}
		} else if th.deadline > 0 && now < th.deadline {
			continue
		}
		out = append(out, th)
	}
	// last-running thread first (choice 0 = no context switch), others by id
	sort.SliceStable(out, func(i, j int) bool {
		a, b := out[i], out[j]
		if (a == s.last) != (b == s.last) {
			return a == s.last
		}
		return a.ID < b.ID
	})
	return out
}

func (s *Sim) pick(elig []*Thread) *Thread {
	n := len(elig)
	if n == 1 {
		return elig[0]
	}
	if s.fair {
		// fair round-robin is a deterministic function of the state and is NOT drawn from the
		// tape: a shrunk or truncated tape must not be able to turn a settle phase into an unfair
		// schedule (bounded-liveness verdicts are only meaningful under fairness)
		best := 0
		for i, th := range elig {
			if th.lastRun < elig[best].lastRun {
				best = i
			}
		}
		return elig[best]
	}
	idx := s.tape.Decide(n, func(r uint64) int {
		contIdx := -1
		if elig[0] == s.last {
			contIdx = 0
		}
		switch s.strat {
		case 2: // priorities: run the highest priority eligible thread; sometimes demote it
			best := 0
			for i, th := range elig {
				if th.prio > elig[best].prio {
					best = i
				}
			}
			if r%16 < 2 {
				elig[best].prio = -int(r>>8) % 1000
			}
			return best
		default:
			if contIdx == 0 && int(r%16) >= s.switchNum {
				return 0
			}
			return int((r >> 8) % uint64(n))
		}
	})
	return elig[idx]
}

func (s *Sim) drawBudget() int {
	if s.fair {
		return 64
	}
	i := s.tape.Decide(len(budgets), func(r uint64) int {
		if s.meanBud >= 1<<20 {
			return 0
		}
		// geometric-ish around meanBud: pick a table entry near a random target
		target := 1 + int(r%uint64(2*s.meanBud))
		best := 1
		for k := 1; k < len(budgets); k++ {
			if abs(budgets[k]-target) < abs(budgets[best]-target) {
				best = k
			}
		}
		return best
	})
	return budgets[i]
}

func abs(x int) int {
	if x < 0 {
		return -x
	}
	return x
}

func (s *Sim) advance(now time.Duration) {
	wake := s.cfg.Horizon
	for _, th := range s.threads {
		if th.state.Load() == stParked && th.deadline > 0 && th.deadline < wake {
			wake = th.deadline
		}
	}
	d := wake - now
	if d <= 0 {
		d = 1
	}
	select {
	case <-s.arrive:
	default:
	}
	tm := time.NewTimer(d)
	select {
	case <-s.arrive:
	case <-tm.C:
	}
	tm.Stop()
}

func (s *Sim) spawn(name string, lib bool, site int32, fn func()) *Thread {
	th := &Thread{ID: len(s.threads), Name: name, Lib: lib, sim: s, gate: make(chan struct{}), site: site}
	th.state.Store(stParked)
	if s.strat == 2 {
		th.prio = s.tape.Choose(1000)
	}
	s.threads = append(s.threads, th)
	go th.top(fn)
	return th
}

func (th *Thread) top(fn func()) {
	s := th.sim
	<-th.gate
	if s.poisoned.Load() {
		th.state.Store(stExited)
		return
	}
	defer func() {
		r := recover()
		if r != nil && !s.poisoned.Load() {
			th.PanicVal = r
			th.PanicStack = string(debug.Stack())
			s.event(th.ID, "GOROUTINE-PANIC", fmt.Sprintf("%v", r))
		}
		th.state.Store(stExited)
		select {
		case s.arrive <- struct{}{}:
		default:
		}
	}()
	fn()
}

func (s *Sim) park(th *Thread) {
	th.state.Store(stParked)
	select {
	case s.arrive <- struct{}{}:
	default:
	}
	<-th.gate
	if s.poisoned.Load() {
		runtime.Goexit()
	}
}

func (s *Sim) event(tid int, kind, detail string) {
	s.seq++
	e := Event{Seq: s.seq, T: time.Since(s.t0), Thread: tid, Kind: kind, Detail: detail}
	s.events = append(s.events, e)
	s.mix(uint64(tid), uint64(len(kind)), uint64(len(detail)))
	if s.cfg.Trace {
		s.trace = append(s.trace, fmt.Sprintf("  EVENT T%d %s %s", tid, kind, detail))
	}
}

func (s *Sim) yield(site int32) {
	if s.poisoned.Load() {
		runtime.Goexit()
	}
	s.spins = 0
	th := s.running
	if site >= 0 {
		if int(site) >= len(siteHits) {
			grown := make([]uint8, int(site)+1024)
			copy(grown, siteHits)
			siteHits = grown
		}
		siteHits[site] = 1
	}
	if th.noPreempt {
		return
	}
	th.site = site
	s.yields++
	if s.yields > s.cfg.MaxYields {
		// the code under test spins: stop the run (reason "maxyields")
		s.overrun = true
		th.opSite = site
		s.park(th)
	}
	if s.yields&511 == 0 {
		// runaway recursion in the code under test would end in a fatal (unrecoverable) stack
		// overflow; turn it into an ordinary panic long before that
		var pcs [2048]uintptr
		if runtime.Callers(0, pcs[:]) == len(pcs) {
			panic("runaway recursion: call depth exceeded 2000 frames")
		}
	}
	th.budget--
	if th.budget > 0 && !(s.hotMod != 0 && s.isHot(site) && th.budget%2 == 0) {
		return
	}
	s.park(th)
}

// ---- hooks called by instrumented code -------------------------------------

// SpinLimit is the number of for-loop iterations the code under test may run between two scheduling points.
const SpinLimit = 1000000

// Spin is called at the top of every for-loop iteration of instrumented code. A loop that runs SpinLimit
// iterations without reaching any scheduling point cannot be waiting for another thread (nothing else runs
// meanwhile): it is reported as a panic of the spinning thread instead of hanging the worker process.
func Spin() {
	s := cur.Load()
	if s == nil {
		return
	}
	s.spins++
	if s.spins > SpinLimit {
		s.spins = 0
		panic(fmt.Sprintf("simrt: a loop ran %d iterations without reaching a scheduling point (unbounded loop)", SpinLimit))
	}
}

// SleepDur is applied to the argument of every time.Sleep of instrumented code: inside a simulation a sleep of
// zero or negative length lasts one virtual nanosecond (on a real machine the call itself takes time; the fake
// clock only moves when every thread is blocked).
func SleepDur(d time.Duration) time.Duration {
	if d <= 0 && cur.Load() != nil {
		return time.Nanosecond
	}
	return d
}

// Y is a statement-level yield point.
func Y(site int32) {
	s := cur.Load()
	if s == nil {
		return
	}
	s.yield(site)
}

// Token identifies one blocking operation of one thread.
type Token struct {
	th  *Thread
	seq uint64
}

// B marks the start of a potentially blocking operation; it is a yield
// point. The returned token must be passed to U right after the operation.
func B(site int32) Token {
	s := cur.Load()
	if s == nil {
		return Token{}
	}
	s.yield(site)
	th := s.running
	th.opSite = site
	th.opSeq++
	th.opCur = th.opSeq
	return Token{th, th.opSeq}
}

// U is the post-operation gate: a thread that was found durably blocked by
// the scheduler parks here until it is scheduled again.
func U(tk Token) {
	th := tk.th
	if th == nil {
		return
	}
	s := th.sim
	if s.poisoned.Load() {
		runtime.Goexit()
	}
	if th.opCur == tk.seq {
		th.opCur = 0
	}
	if th.desched.Load() {
		th.desched.Store(false)
		s.park(th)
	}
}

// UP is deferred right after B for operations that can end in a panic while the
// thread is blocked (a send in a blocking select whose channel gets closed): the
// panic skips U, so the unwinding thread must pass the gate here before it runs
// any further hook. It does nothing when U has already run for this operation.
func UP(tk Token) {
	th := tk.th
	if th == nil {
		return
	}
	if th.opCur != tk.seq {
		return
	}
	U(tk)
}

func tryLock(mu interface{}, write bool) bool {
	switch m := mu.(type) {
	case *sync.Mutex:
		if m.TryLock() {
			m.Unlock()
			return true
		}
		return false
	case *sync.RWMutex:
		if write {
			if m.TryLock() {
				m.Unlock()
				return true
			}
			return false
		}
		if m.TryRLock() {
			m.RUnlock()
			return true
		}
		return false
	}
	return true
}

// L is placed before every Lock/RLock: the thread never really waits inside
// the mutex (not a durable block under synctest); it parks until a TryLock
// probe succeeds. Because exactly one thread runs, the real Lock that
// follows cannot contend.
func L(site int32, mu interface{}, write bool) {
	s := cur.Load()
	if s == nil {
		return
	}
	s.yield(site)
	th := s.running
	ok := func() bool { return tryLock(mu, write) }
	if rw, isRW := mu.(*sync.RWMutex); isRW {
		if write {
			if tryLock(mu, true) {
				return
			}
			// sync.RWMutex: once a writer waits, readers that arrive later wait behind it (this is what
			// makes a recursive RLock deadlock when a writer slips in between)
			// (no defer: at teardown all parked threads Goexit at once and must not touch the map)
			s.wpending[rw]++
			for !tryLock(mu, true) {
				th.ready = ok
				th.lockWait = true
				th.opSite = site
				s.park(th)
				th.ready = nil
			}
			s.wpending[rw]--
			return
		} else {
			ok = func() bool { return s.wpending[rw] == 0 && tryLock(mu, false) }
		}
	}
	for !ok() {
		th.ready = ok
		th.lockWait = true
		th.opSite = site
		s.park(th)
		th.ready = nil
	}
}

// UL is placed before every Unlock/RUnlock. Unlocking a mutex that is not locked is a *fatal error* of the
// Go runtime (no recover can catch it, the process dies); because exactly one thread runs, a successful
// TryLock proves that nobody holds the mutex. The condition is recorded and turned into a panic of the
// offending thread before the real Unlock is reached.
func UL(site int32, mu interface{}, write bool) {
	s := cur.Load()
	if s == nil || s.poisoned.Load() {
		return
	}
	free := false
	switch m := mu.(type) {
	case *sync.Mutex:
		if m.TryLock() {
			m.Unlock()
			free = true
		}
	case *sync.RWMutex:
		if m.TryLock() {
			m.Unlock()
			free = true
		}
	}
	if free {
		what := "sync: unlock of unlocked mutex"
		if !write {
			what = "sync: RUnlock of unlocked RWMutex"
		}
		msg := what + " at " + SiteName(site)
		s.fatals = append(s.fatals, msg)
		s.event(s.running.ID, "fatal", what)
		panic("fatal error: " + msg)
	}
}

// Go replaces a `go` statement of the code under test.
func Go(site int32, fn func()) {
	s := cur.Load()
	if s == nil {
		go fn()
		return
	}
	if s.poisoned.Load() {
		runtime.Goexit()
	}
	s.spawn("lib:"+SiteFunc(site), true, site, fn)
}

// ---- simulated sync.Pool -----------------------------------------------------

type simPool struct{ free []interface{} }

// PoolGet replaces (*sync.Pool).Get.
func PoolGet(p *sync.Pool) interface{} {
	s := cur.Load()
	if s == nil {
		return p.Get()
	}
	if s.poisoned.Load() {
		runtime.Goexit()
	}
	sp := s.pools[p]
	if sp == nil || len(sp.free) == 0 {
		if p.New == nil {
			return nil
		}
		return p.New()
	}
	// 0 = fresh allocation, 1 = reuse newest, 2 = reuse oldest
	c := s.tape.Decide(3, func(r uint64) int {
		if int(r%8) >= s.poolReuse {
			return 0
		}
		return 1 + int((r>>8)%2)
	})
	switch c {
	case 1:
		x := sp.free[len(sp.free)-1]
		sp.free = sp.free[:len(sp.free)-1]
		s.faults["pool-reuse-newest"]++
		return x
	case 2:
		x := sp.free[0]
		sp.free = sp.free[1:]
		s.faults["pool-reuse-oldest"]++
		return x
	}
	if p.New == nil {
		return nil
	}
	return p.New()
}

// PoolPut replaces (*sync.Pool).Put.
func PoolPut(p *sync.Pool, x interface{}) {
	s := cur.Load()
	if s == nil {
		p.Put(x)
		return
	}
	if s.poisoned.Load() {
		runtime.Goexit()
	}
	// 0 = dropped (as after a GC), 1 = retained
	c := s.tape.Decide(2, func(r uint64) int {
		if int(r%8) < s.poolReuse {
			return 1
		}
		return 0
	})
	if c == 0 {
		s.faults["pool-drop"]++
		return
	}
	sp := s.pools[p]
	if sp == nil {
		sp = &simPool{}
		s.pools[p] = sp
	}
	if len(sp.free) < 64 {
		sp.free = append(sp.free, x)
	}
}

// ---- API for harness threads -------------------------------------------------

// SelStart decides which of the n communication cases of a select statement is polled first (the instrumenter
// polls the cases non-blockingly in rotation before falling back to the original select), i.e. which of several
// READY cases is taken: a tape choice, so that it is explored and replays. Outside a simulation: 0.
func SelStart(site int32, n int) int {
	s := cur.Load()
	if s == nil || n < 2 {
		return 0
	}
	if s.poisoned.Load() {
		runtime.Goexit()
	}
	return s.tape.Choose(n)
}

// ZeroOfChan returns the zero value of a channel's element type: the instrumenter declares the (shared, pre-Go-1.22)
// loop variable of a rewritten `for v := range ch` loop with it.
func ZeroOfChan[T any](c <-chan T) T {
	var z T
	return z
}

// Active returns the running simulation (nil outside a simulation).
func Active() *Sim { return cur.Load() }

// Deactivate makes all hooks pass-through again (after the last run).
func Deactivate() { cur.Store(nil) }

// Go starts a harness thread.
func (s *Sim) Go(name string, fn func()) *Thread {
	if s.poisoned.Load() {
		runtime.Goexit()
	}
	return s.spawn(name, false, -1, fn)
}

// Yield is an explicit preemption point in harness code.
func (s *Sim) Yield() { s.yield(-1) }

// YieldHard always parks (a decision point), regardless of the budget.
func (s *Sim) YieldHard() {
	if s.poisoned.Load() {
		runtime.Goexit()
	}
	th := s.running
	th.site = -1
	s.park(th)
}

// NoPreempt runs fn without any preemption point (used by scenarios to apply a configuration as one
// step, e.g. a chain of setters right after construction). fn must not block.
func (s *Sim) NoPreempt(fn func()) {
	th := s.running
	th.noPreempt = true
	defer func() { th.noPreempt = false }()
	fn()
}

// Self returns the running thread.
func (s *Sim) Self() *Thread { return s.running }

// Now is the virtual time since the start of the run.
func (s *Sim) Now() time.Duration { return time.Since(s.t0) }

// Stamp returns the next global event sequence number.
func (s *Sim) Stamp() uint64 {
	if s.poisoned.Load() {
		runtime.Goexit()
	}
	s.seq++
	return s.seq
}

// Tape gives harness code access to the schedule tape for run-time faults.
func (s *Sim) Tape() *Tape { return s.tape }

// Fault counts an injected fault by kind.
func (s *Sim) Fault(kind string) { s.faults[kind]++ }

// Event appends to the event log.
func (s *Sim) Event(kind, detail string) {
	if s.poisoned.Load() {
		runtime.Goexit()
	}
	s.event(s.running.ID, kind, detail)
}

// Sleep blocks the calling thread for d of virtual time.
func (s *Sim) Sleep(d time.Duration) {
	tk := B(-2)
	time.Sleep(d)
	U(tk)
}

// WaitUntil parks the calling thread until cond() holds. cond is evaluated
// by the scheduler while every thread is stopped.
func (s *Sim) WaitUntil(cond func() bool) {
	s.WaitUntilTimeout(cond, 0)
}

// WaitUntilTimeout parks until cond() holds or d of virtual time has passed
// (d == 0: no deadline). It reports whether cond held.
func (s *Sim) WaitUntilTimeout(cond func() bool, d time.Duration) bool {
	if s.poisoned.Load() {
		runtime.Goexit()
	}
	th := s.running
	if cond() {
		return true
	}
	th.ready = cond
	if d > 0 {
		th.deadline = time.Since(s.t0) + d
	}
	th.site = -3
	s.park(th)
	th.ready = nil
	th.deadline = 0
	return cond()
}

// SetFair switches the scheduler to fair round-robin (settle phases).
func (s *Sim) SetFair(on bool) { s.fair = on }

// Threads returns all threads created so far.
func (s *Sim) Threads() []*Thread { return s.threads }

// ---- site table ----------------------------------------------------------------

var (
	siteMu    sync.Mutex
	siteNames = map[int32]string{}
)

// RegisterSites is called from generated init functions.
func RegisterSites(base int32, names []string) {
	siteMu.Lock()
	for i, n := range names {
		siteNames[base+int32(i)] = n
	}
	siteMu.Unlock()
}

// SiteName returns "file:line func kind" of a site id.
func SiteName(id int32) string {
	switch id {
	case -1:
		return "harness"
	case -2:
		return "harness:sleep"
	case -3:
		return "harness:wait"
	case -4:
		return "harness:chan"
	case -9:
		return "not-blocked"
	}
	siteMu.Lock()
	n, ok := siteNames[id]
	siteMu.Unlock()
	if !ok {
		return fmt.Sprintf("site#%d", id)
	}
	return n
}

// SiteFunc returns the enclosing function part of a site name.
func SiteFunc(id int32) string {
	n := SiteName(id)
	if f := strings.Fields(n); len(f) >= 2 {
		return f[1]
	}
	return n
}
