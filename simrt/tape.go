package simrt

// Tape is the single source of every nondeterministic decision of a run.
//
// In generation mode, values come from a SplitMix64 PRNG (shaped by the
// caller through ChooseW) and are recorded. In replay mode they come from
// a recorded list. A Choose(n) with n <= 1 neither consumes nor records an
// entry (otherwise record and replay drift apart).
//
// Convention: value 0 is always the "simplest" alternative (continue the
// current thread, no fault, smallest size), so truncating or zeroing a
// tape simplifies the run.
type Tape struct {
	rng     uint64
	replay  []Entry
	pos     int
	Rec     []Entry
	strict  bool
	Drift   bool // strict replay saw a different n than recorded
	Exhaust int  // number of draws past the end of a replay tape
	isRep   bool
}

// Entry is one recorded choice: V in [0,N).
type Entry struct {
	N int `json:"n"`
	V int `json:"v"`
}

// NewGenTape returns a generating tape seeded with seed.
func NewGenTape(seed uint64) *Tape {
	return &Tape{rng: seed*0x9E3779B97F4A7C15 + 0x1234567}
}

// NewReplayTape returns a tape replaying entries. With strict, an entry whose
// recorded N differs from the requested n sets Drift.
func NewReplayTape(entries []Entry, strict bool) *Tape {
	return &Tape{replay: entries, isRep: true, strict: strict}
}

// IsReplay reports whether the tape replays recorded entries.
func (t *Tape) IsReplay() bool { return t.isRep }

func (t *Tape) next64() uint64 {
	t.rng += 0x9E3779B97F4A7C15
	z := t.rng
	z = (z ^ (z >> 30)) * 0xBF58476D1CE4E5B9
	z = (z ^ (z >> 27)) * 0x94D049BB133111EB
	return z ^ (z >> 31)
}

// Choose returns a value in [0,n), uniformly in generation mode.
func (t *Tape) Choose(n int) int {
	if n <= 1 {
		return 0
	}
	if t.isRep {
		return t.fromReplay(n)
	}
	v := int(t.next64() % uint64(n))
	t.Rec = append(t.Rec, Entry{n, v})
	return v
}

// ChooseW returns a value in [0,len(w)) with probability proportional to
// w[i] in generation mode. Replay ignores the weights.
func (t *Tape) ChooseW(w []int) int {
	n := len(w)
	if n <= 1 {
		return 0
	}
	if t.isRep {
		return t.fromReplay(n)
	}
	tot := 0
	for _, x := range w {
		tot += x
	}
	v := 0
	if tot > 0 {
		r := int(t.next64() % uint64(tot))
		for i, x := range w {
			if r < x {
				v = i
				break
			}
			r -= x
		}
	}
	t.Rec = append(t.Rec, Entry{n, v})
	return v
}

// Bias returns 0 with probability (den-num)/den and otherwise a uniform
// value in [1,n). Used for "mostly the simple alternative".
func (t *Tape) Bias(n, num, den int) int {
	if n <= 1 {
		return 0
	}
	if t.isRep {
		return t.fromReplay(n)
	}
	v := 0
	if int(t.next64()%uint64(den)) < num {
		v = 1 + int(t.next64()%uint64(n-1))
	}
	t.Rec = append(t.Rec, Entry{n, v})
	return v
}

// Bool draws a boolean; true with probability num/den when generating.
func (t *Tape) Bool(num, den int) bool { return t.Bias(2, num, den) == 1 }

// Range draws an integer in [lo,hi].
func (t *Tape) Range(lo, hi int) int {
	if hi <= lo {
		return lo
	}
	return lo + t.Choose(hi-lo+1)
}

func (t *Tape) fromReplay(n int) int {
	if t.pos >= len(t.replay) {
		t.Exhaust++
		t.Rec = append(t.Rec, Entry{n, 0})
		return 0
	}
	e := t.replay[t.pos]
	t.pos++
	if e.N != n && t.strict {
		t.Drift = true
	}
	v := e.V
	if v < 0 {
		v = -v
	}
	v %= n
	t.Rec = append(t.Rec, Entry{n, v})
	return v
}

// Decide returns a value in [0,n): from the replay tape when replaying,
// otherwise gen(random 64 bits) (clamped), and records it.
func (t *Tape) Decide(n int, gen func(r uint64) int) int {
	if n <= 1 {
		return 0
	}
	if t.isRep {
		return t.fromReplay(n)
	}
	v := gen(t.next64())
	if v < 0 || v >= n {
		v = 0
	}
	t.Rec = append(t.Rec, Entry{n, v})
	return v
}
