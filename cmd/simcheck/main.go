// simcheck is the driver of the deterministic-simulation checks.
//
//	simcheck run -property C15 [-tier quick|thorough]
//	simcheck replay <file>
//	simcheck selftest [-property C15] [-seeds 40]
//	simcheck transparency
//
// Every invocation rebuilds from /repo's current working tree: copy ->
// instrument (tools/siminstr) -> compile the harness test binary against the
// instrumented copy -> fan out seeds over worker processes -> shrink ->
// replay -> known-findings filter -> evidence. Exit 0: held on everything
// explored; 1: VIOLATION; 2: tool trouble (never a verdict).
package main

import (
	"bufio"
	"bytes"
	"encoding/binary"
	"encoding/json"
	"flag"
	"fmt"
	"os"
	"os/exec"
	"path/filepath"
	"sort"
	"strconv"
	"strings"
	"sync"
	"syscall"
	"time"
)

const goBin = "go1.26.8"

// verifDir is /verif, or VERIF_DIR (a snapshot of /verif used by background runs).
var verifDir = "/verif"

var repoDir = "/repo"

type budget struct {
	quickRuns, thoroughRuns int
	quickWall, thoroughWall int // seconds, safety cap per worker
}

var budgets = map[string]budget{
	"C06": {800000, 30000000, 120, 2400},
	"C07": {300000, 12000000, 120, 2400},
	"C08": {16000, 250000, 150, 3000},
	"C09": {80000, 3000000, 150, 2400},
	"C10": {300000, 12000000, 120, 2400},
	"C11": {400000, 16000000, 120, 2400},
	"C12": {500000, 20000000, 120, 2400},
	"C13": {400000, 16000000, 120, 2400},
	"C14": {300000, 12000000, 120, 2400},
	"C15": {500000, 20000000, 120, 2400},
	"C16": {400000, 16000000, 120, 2400},
	"C17": {300000, 12000000, 120, 2400},
	"C18": {300000, 12000000, 120, 2400},
	"C20": {400000, 16000000, 120, 2400},
}

var levels = map[string]string{"C18": "fault_enumeration"}

type violation struct {
	Clause      string `json:"clause"`
	Fingerprint string `json:"fingerprint"`
	Detail      string `json:"detail"`
}

type entry struct {
	N int `json:"n"`
	V int `json:"v"`
}

type runOut struct {
	Property   string          `json:"property"`
	Tier       string          `json:"tier"`
	Seed       uint64          `json:"seed"`
	ScenTape   []entry         `json:"scenario_tape"`
	SchedTape  []entry         `json:"schedule_tape"`
	Violations []violation     `json:"violations"`
	Scenario   json.RawMessage `json:"scenario"`
	Trace      []string        `json:"trace"`
	Hash       string          `json:"hash"`
	Reason     string          `json:"reason"`
	Steps      int             `json:"steps"`
	Procs      int             `json:"gomaxprocs"`
	Switches   int             `json:"switches"`
	Tool       string          `json:"tool_error"`
}

type stats struct {
	Runs         int             `json:"runs"`
	Violating    int             `json:"violating_runs"`
	Nontrivial   int             `json:"nontrivial_runs"`
	Steps        int64           `json:"steps"`
	Yields       int64           `json:"yields"`
	Switches     int64           `json:"switches"`
	VTimeNs      int64           `json:"vtime_ns"`
	Faults       map[string]int  `json:"faults"`
	Probes       map[string]int  `json:"probes"`
	Strategies   map[string]int  `json:"strategies"`
	Reasons      map[string]int  `json:"reasons"`
	Sigs         []string        `json:"sigs"`
	Samples      []interface{}   `json:"samples"`
	WallS        float64         `json:"wall_s"`
	ToolErrors   []string        `json:"tool_errors"`
	Inconclusive int             `json:"inconclusive"`
	SitesHit     map[string]bool `json:"sites_hit"`
	NextK        int             `json:"next_k"`
	Extra        json.RawMessage `json:"extra"`
}

type finding struct {
	Property    string `json:"property"`
	Status      string `json:"status"`
	Clause      string `json:"clause"`
	Fingerprint string `json:"fingerprint"`
	What        string `json:"what"`
	Commit      string `json:"commit,omitempty"`
}

type propMeta struct {
	Rule        string   `json:"rule"`
	Real        []string `json:"real"`
	Stub        []string `json:"stub"`
	Assumptions []string `json:"assumptions"`
}

func die(code int, format string, a ...interface{}) {
	fmt.Fprintf(os.Stderr, "simcheck: "+format+"\n", a...)
	os.Exit(code)
}

func goEnv() []string {
	env := os.Environ()
	out := env[:0:0]
	for _, e := range env {
		if strings.HasPrefix(e, "GOFLAGS=") || strings.HasPrefix(e, "GOPROXY=") || strings.HasPrefix(e, "GOSUMDB=") ||
			strings.HasPrefix(e, "GOTOOLCHAIN=") || strings.HasPrefix(e, "GOROOT=") || strings.HasPrefix(e, "GOMAXPROCS=") {
			continue
		}
		out = append(out, e)
	}
	return append(out, "GOFLAGS=-mod=mod", "GOPROXY=off", "GOSUMDB=off", "GOTOOLCHAIN=local", "CGO_ENABLED=0")
}

var goRootCache string

func goRoot() string {
	if goRootCache == "" {
		c := exec.Command(goBin, "env", "GOROOT")
		c.Env = goEnv()
		b, err := c.Output()
		if err != nil {
			die(2, "cannot run %s env GOROOT: %v", goBin, err)
		}
		goRootCache = strings.TrimSpace(string(b))
	}
	return goRootCache
}

// build instruments /repo's working tree into scratch and compiles the harness against it.
func build(scratch string, withTests bool) string {
	instr := filepath.Join(verifDir, "bin", "siminstr")
	if _, err := os.Stat(instr); err != nil {
		c := exec.Command(goBin, "build", "-o", instr, "./tools/siminstr")
		c.Dir = verifDir
		c.Env = goEnv()
		if b, err := c.CombinedOutput(); err != nil {
			die(2, "building siminstr failed: %v\n%s", err, b)
		}
	}
	args := []string{"-src", repoDir, "-dst", filepath.Join(scratch, "fpgo"), "-simrt", filepath.Join(verifDir, "simrt")}
	if withTests {
		args = append(args, "-tests")
	}
	c := exec.Command(instr, args...)
	c.Env = append(goEnv(), "GOROOT="+goRoot())
	if b, err := c.CombinedOutput(); err != nil {
		die(2, "instrumenting %s failed (tool trouble or the tree does not type-check): %v\n%s", repoDir, err, b)
	}
	gm, err := os.ReadFile(filepath.Join(verifDir, "go.mod"))
	if err != nil {
		die(2, "%v", err)
	}
	s := strings.Replace(string(gm), "=> /repo", "=> "+filepath.Join(scratch, "fpgo"), 1)
	s = strings.Replace(s, "=> ./simrt", "=> "+filepath.Join(verifDir, "simrt"), 1)
	os.WriteFile(filepath.Join(scratch, "go.mod"), []byte(s), 0o644)
	gs, _ := os.ReadFile(filepath.Join(verifDir, "go.sum"))
	os.WriteFile(filepath.Join(scratch, "go.sum"), gs, 0o644)
	bin := filepath.Join(scratch, "harness.test")
	c = exec.Command(goBin, "test", "-c", "-vet=off", "-modfile="+filepath.Join(scratch, "go.mod"), "-o", bin, "./harness")
	c.Dir = verifDir
	c.Env = goEnv()
	if b, err := c.CombinedOutput(); err != nil {
		die(2, "compiling the harness against the instrumented tree failed: %v\n%s", err, b)
	}
	return bin
}

// outDir is where evidence and replay files go: /verif, or VERIF_OUT_DIR for sensitivity runs
// against seeded changes (which must not overwrite the committed evidence).
func outDir() string {
	if v := os.Getenv("VERIF_OUT_DIR"); v != "" {
		return v
	}
	return verifDir
}

func mkScratch() string {
	d, err := os.MkdirTemp("", "simcheck-")
	if err != nil {
		die(2, "%v", err)
	}
	return d
}

// worker runs the harness binary in one mode and returns the decoded JSON lines.
func worker(bin, scratch string, env map[string]string, timeout time.Duration, tag string) ([]map[string]json.RawMessage, error) {
	out := filepath.Join(scratch, "out-"+tag+".jsonl")
	c := exec.Command(bin, "-test.run", "^TestWorker$", "-test.timeout", "0")
	c.Dir = scratch
	c.Env = append(os.Environ(), "SIM_OUT="+out)
	if _, ok := env["GOMAXPROCS"]; !ok {
		// one thread runs at a time inside a simulation; more Ps only add hand-off noise
		c.Env = append(c.Env, "GOMAXPROCS=4")
	}
	for k, v := range env {
		c.Env = append(c.Env, k+"="+v)
	}
	var buf bytes.Buffer
	c.Stdout = &buf
	c.Stderr = &buf
	if err := c.Start(); err != nil {
		return nil, err
	}
	done := make(chan error, 1)
	go func() { done <- c.Wait() }()
	select {
	case err := <-done:
		if err != nil {
			tail := buf.String()
			if len(tail) > 3000 {
				tail = tail[:3000]
			}
			return nil, fmt.Errorf("worker %s failed: %v\n%s", tag, err, tail)
		}
	case <-time.After(timeout):
		// ask the Go runtime for a goroutine dump before killing: the dump is the diagnosis
		c.Process.Signal(syscall.SIGQUIT)
		select {
		case <-done:
		case <-time.After(20 * time.Second):
			c.Process.Kill()
		}
		os.MkdirAll(filepath.Join(outDir(), "replays"), 0o755)
		dump := filepath.Join(outDir(), "replays", "watchdog-"+tag+".txt")
		os.WriteFile(dump, buf.Bytes(), 0o644)
		return nil, fmt.Errorf("worker %s: watchdog after %v (a thread blocked outside the simulator's control?); goroutine dump in %s", tag, timeout, dump)
	}
	f, err := os.Open(out)
	if err != nil {
		return nil, err
	}
	defer f.Close()
	var recs []map[string]json.RawMessage
	sc := bufio.NewScanner(f)
	sc.Buffer(make([]byte, 1<<20), 1<<28)
	for sc.Scan() {
		var m map[string]json.RawMessage
		if err := json.Unmarshal(sc.Bytes(), &m); err != nil {
			return nil, fmt.Errorf("worker %s: bad output line: %v", tag, err)
		}
		recs = append(recs, m)
	}
	return recs, nil
}

func loadFindings() []finding {
	b, err := os.ReadFile(filepath.Join(verifDir, "known_findings.json"))
	if err != nil {
		return nil
	}
	var fs []finding
	if err := json.Unmarshal(b, &fs); err != nil {
		die(2, "known_findings.json: %v", err)
	}
	return fs
}

func writeJSON(path string, v interface{}) {
	b, err := json.MarshalIndent(v, "", " ")
	if err != nil {
		die(2, "%v", err)
	}
	os.MkdirAll(filepath.Dir(path), 0o755)
	if err := os.WriteFile(path, append(b, '\n'), 0o644); err != nil {
		die(2, "%v", err)
	}
}

func typeOf(m map[string]json.RawMessage) string {
	var t string
	json.Unmarshal(m["type"], &t)
	return t
}

func treeID() string {
	c := exec.Command("git", "-C", repoDir, "rev-parse", "--short", "HEAD")
	b, _ := c.Output()
	id := strings.TrimSpace(string(b))
	c = exec.Command("git", "-C", repoDir, "status", "--porcelain")
	b, _ = c.Output()
	if len(bytes.TrimSpace(b)) > 0 {
		id += "+dirty"
	}
	return id
}

func cmdRun(args []string) {
	fs := flag.NewFlagSet("run", flag.ExitOnError)
	prop := fs.String("property", "", "property id")
	tier := fs.String("tier", "quick", "quick|thorough")
	runsFlag := fs.Int("runs", 0, "override number of runs")
	workers := fs.Int("workers", 16, "worker processes")
	fs.Parse(args)
	if v := os.Getenv("VERIF_TIER"); v == "quick" || v == "thorough" {
		*tier = v
	}
	seed := uint64(1)
	if v := os.Getenv("VERIF_SEED"); v != "" {
		if n, err := strconv.ParseUint(v, 10, 64); err == nil {
			seed = n
		} else if n, err := strconv.ParseInt(v, 10, 64); err == nil {
			seed = uint64(n)
		}
	}
	b, ok := budgets[*prop]
	if !ok {
		die(2, "unknown property %q", *prop)
	}
	runs, wall := b.quickRuns, b.quickWall
	if *tier == "thorough" {
		runs, wall = b.thoroughRuns, b.thoroughWall
	}
	if *runsFlag > 0 {
		runs = *runsFlag
	}
	if v := os.Getenv("VERIF_RUNS"); v != "" {
		if n, err := strconv.Atoi(v); err == nil && n > 0 {
			runs = n
		}
	}
	start := time.Now()
	fmt.Printf("simcheck: property=%s tier=%s VERIF_SEED=%d runs=%d workers=%d tree=%s\n", *prop, *tier, seed, runs, *workers, treeID())
	scratch := mkScratch()
	defer os.RemoveAll(scratch)
	bin := build(scratch, false)
	buildS := time.Since(start).Seconds()

	// property meta
	var meta propMeta
	if recs, err := worker(bin, scratch, map[string]string{"SIM_MODE": "meta", "SIM_PROP": *prop}, 60*time.Second, "meta"); err == nil && len(recs) > 0 {
		json.Unmarshal(recs[0]["meta"], &meta)
	} else if err != nil {
		os.RemoveAll(scratch)
		die(2, "%v", err)
	}

	// thorough tier: determinism self-test for this property before any verdict is trusted
	detSeeds := 0
	if *tier == "thorough" {
		detSeeds = 30
		var ref []string
		for i, procs := range []string{"1", "4", "16"} {
			recs, err := worker(bin, scratch, map[string]string{"SIM_MODE": "hashes", "SIM_PROP": *prop, "SIM_TIER": *tier, "SIM_RUNS": fmt.Sprint(detSeeds),
				"SIM_SEED": fmt.Sprint(seed), "GOMAXPROCS": procs}, 900*time.Second, fmt.Sprintf("det%d", i))
			if err != nil || len(recs) == 0 {
				os.RemoveAll(scratch)
				die(2, "determinism self-test worker failed: %v", err)
			}
			var hs []string
			json.Unmarshal(recs[0]["hashes"], &hs)
			if i == 0 {
				ref = hs
				continue
			}
			for k := range ref {
				if k >= len(hs) || hs[k] != ref[k] {
					os.RemoveAll(scratch)
					die(2, "NONDETERMINISM: determinism self-test: run %d differs between GOMAXPROCS=1 and GOMAXPROCS=%s:\n  %s\n  %s", k, procs, ref[k], safeIdx(hs, k))
				}
			}
		}
	}

	// search
	type wres struct {
		recs []map[string]json.RawMessage
		err  error
	}
	results := make([]wres, *workers)
	var wg sync.WaitGroup
	for w := 0; w < *workers; w++ {
		wg.Add(1)
		go func(w int) {
			defer wg.Done()
			// a worker process that has grown too large (goroutines left blocked at the end of a simulation
			// are never released) stops and names the run it would have done next; a fresh process continues
			t0 := time.Now()
			from := 0
			var all []map[string]json.RawMessage
			for chunk := 0; ; chunk++ {
				left := wall - int(time.Since(t0).Seconds())
				if left < 1 {
					left = 1
				}
				env := map[string]string{"SIM_MODE": "search", "SIM_PROP": *prop, "SIM_TIER": *tier, "SIM_SEED": fmt.Sprint(seed),
					"SIM_WORKER": fmt.Sprint(w), "SIM_WORKERS": fmt.Sprint(*workers), "SIM_RUNS": fmt.Sprint(runs), "SIM_WALL_S": fmt.Sprint(left),
					"SIM_FROM": fmt.Sprint(from)}
				if w%4 == 3 {
					// environment diversity: one worker process in four runs on a single P (simulated runs are identical
					// there - see the self-test - unless the code under test consults runtime.GOMAXPROCS)
					env["GOMAXPROCS"] = "1"
				}
				r, err := worker(bin, scratch, env, time.Duration(left+900)*time.Second, fmt.Sprintf("w%d_%d", w, chunk))
				if err != nil {
					results[w] = wres{nil, err}
					return
				}
				all = append(all, r...)
				next := 0
				for _, m := range r {
					if typeOf(m) == "stats" {
						var st stats
						if json.Unmarshal(m["stats"], &st) == nil {
							next = st.NextK
						}
					}
				}
				if next <= from || int(time.Since(t0).Seconds()) >= wall {
					break
				}
				from = next
			}
			results[w] = wres{all, nil}
		}(w)
	}
	wg.Wait()
	tot := stats{Faults: map[string]int{}, Probes: map[string]int{}, Strategies: map[string]int{}, Reasons: map[string]int{}}
	var allSigs []uint64
	sigFiles, _ := filepath.Glob(filepath.Join(scratch, "out-w*.jsonl.sigs"))
	for _, sf := range sigFiles {
		b, err := os.ReadFile(sf)
		if err != nil {
			continue
		}
		for i := 0; i+8 <= len(b); i += 8 {
			allSigs = append(allSigs, binary.LittleEndian.Uint64(b[i:]))
		}
	}
	sort.Slice(allSigs, func(i, j int) bool { return allSigs[i] < allSigs[j] })
	nDistinct := 0
	for i, v := range allSigs {
		if i == 0 || v != allSigs[i-1] {
			nDistinct++
		}
	}
	sigs := make([]struct{}, nDistinct)
	var viols []runOut
	for w, r := range results {
		if r.err != nil {
			os.RemoveAll(scratch)
			die(2, "search worker %d: %v", w, r.err)
		}
		for _, m := range r.recs {
			switch typeOf(m) {
			case "violation":
				var ro runOut
				if err := json.Unmarshal(m["run"], &ro); err != nil {
					die(2, "bad violation record: %v", err)
				}
				viols = append(viols, ro)
			case "stats":
				var st stats
				if err := json.Unmarshal(m["stats"], &st); err != nil {
					die(2, "bad stats record: %v", err)
				}
				tot.Runs += st.Runs
				tot.Violating += st.Violating
				tot.Nontrivial += st.Nontrivial
				tot.Steps += st.Steps
				tot.Yields += st.Yields
				tot.Switches += st.Switches
				tot.VTimeNs += st.VTimeNs
				tot.Inconclusive += st.Inconclusive
				for k, v := range st.Faults {
					tot.Faults[k] += v
				}
				for k, v := range st.Probes {
					tot.Probes[k] += v
				}
				for k, v := range st.Strategies {
					tot.Strategies[k] += v
				}
				for k, v := range st.Reasons {
					tot.Reasons[k] += v
				}
				if len(tot.Samples) < 3 {
					tot.Samples = append(tot.Samples, st.Samples...)
				}
				tot.ToolErrors = append(tot.ToolErrors, st.ToolErrors...)
				if tot.SitesHit == nil {
					tot.SitesHit = map[string]bool{}
				}
				for k, v := range st.SitesHit {
					tot.SitesHit[k] = tot.SitesHit[k] || v
				}
			}
		}
	}
	if len(tot.ToolErrors) > 0 {
		os.RemoveAll(scratch)
		die(2, "tool errors during search (no verdict):\n  %s", strings.Join(tot.ToolErrors, "\n  "))
	}
	searchS := time.Since(start).Seconds() - buildS

	// classify violations
	findings := loadFindings()
	type classInfo struct {
		v    violation
		runs []runOut
	}
	classes := map[string]*classInfo{}
	var order []string
	for _, ro := range viols {
		for _, v := range ro.Violations {
			k := v.Clause + "|" + v.Fingerprint
			ci := classes[k]
			if ci == nil {
				ci = &classInfo{v: v}
				classes[k] = ci
				order = append(order, k)
			}
			ci.runs = append(ci.runs, ro)
		}
	}
	sort.Strings(order)
	exit := 0
	var knownLines, violLines, nonRepro []string
	newViolations := 0
	shrunk := 0
	for _, k := range order {
		ci := classes[k]
		known := false
		for _, f := range findings {
			if f.Property == *prop && f.Status == "open" && f.Clause == ci.v.Clause && f.Fingerprint == ci.v.Fingerprint {
				knownLines = append(knownLines, fmt.Sprintf("KNOWN-FINDING: property=%s %s [%s]", *prop, f.What, k))
				known = true
				break
			}
		}
		if known {
			continue
		}
		newViolations++
		exit = 1
		// pick the run with the shortest schedule tape
		best := ci.runs[0]
		for _, r := range ci.runs {
			if len(r.SchedTape)+len(r.ScenTape) < len(best.SchedTape)+len(best.ScenTape) {
				best = r
			}
		}
		path := filepath.Join(outDir(), "replays", fmt.Sprintf("%s-%d-%s.json", *prop, best.Seed, shortHash(k)))
		rep := map[string]interface{}{"property": *prop, "tier": *tier, "seed": best.Seed, "clause": ci.v.Clause, "fingerprint": ci.v.Fingerprint,
			"detail": ci.v.Detail, "tree": treeID(), "scenario_tape": best.ScenTape, "schedule_tape": best.SchedTape, "minimised": false, "gomaxprocs": best.Procs}
		procsEnv := func(m map[string]string) map[string]string {
			if best.Procs > 0 {
				m["GOMAXPROCS"] = fmt.Sprint(best.Procs)
			}
			return m
		}
		if shrunk < 6 {
			shrunk++
			in := filepath.Join(scratch, "shrink-in.json")
			writeJSON(in, rep)
			// a few attempts: behaviour that depends on Go's (unseedable) map iteration order
			// may not reproduce on every execution
			for attempt := 0; attempt < 3; attempt++ {
				recs, err := worker(bin, scratch, procsEnv(map[string]string{"SIM_MODE": "shrink", "SIM_PROP": *prop, "SIM_TIER": *tier, "SIM_IN": in, "SIM_WALL_S": "45"}), 120*time.Second, "shrink")
				if err != nil || len(recs) == 0 {
					break
				}
				var okFlag bool
				json.Unmarshal(recs[0]["ok"], &okFlag)
				if okFlag {
					var a, b []entry
					json.Unmarshal(recs[0]["scenario_tape"], &a)
					json.Unmarshal(recs[0]["schedule_tape"], &b)
					rep["scenario_tape"], rep["schedule_tape"], rep["minimised"] = a, b, true
					rep["original_tape_lengths"] = []int{len(best.ScenTape), len(best.SchedTape)}
					break
				}
			}
		}
		// confirm in a fresh process, with a trace
		in := filepath.Join(scratch, "replay-in.json")
		var ro runOut
		repro := false
		attempts := 0
		for attempts < 4 && !repro {
			attempts++
			writeJSON(in, rep)
			recs, err := worker(bin, scratch, procsEnv(map[string]string{"SIM_MODE": "replay", "SIM_PROP": *prop, "SIM_TIER": *tier, "SIM_IN": in, "SIM_TRACE": "1"}), 120*time.Second, "replay")
			if err != nil || len(recs) == 0 {
				os.RemoveAll(scratch)
				die(2, "replay worker failed: %v", err)
			}
			ro = runOut{}
			json.Unmarshal(recs[0]["run"], &ro)
			for _, v := range ro.Violations {
				if v.Clause+"|"+v.Fingerprint == k {
					repro = true
					rep["detail"] = v.Detail
				}
			}
			if !repro && attempts == 2 && rep["minimised"] == true {
				// fall back to the recorded (unshrunk) tapes
				rep["scenario_tape"], rep["schedule_tape"], rep["minimised"] = best.ScenTape, best.SchedTape, false
			}
		}
		if !repro {
			// Not reproducible from its tapes in a fresh process: never reported as a violation. (Typical
			// cause: the code under test keeps process-global state that leaks from one run into the
			// next inside a worker process.) If other classes of this batch do reproduce they are
			// reported; if none does, the batch ends as tool trouble (exit 2).
			nonRepro = append(nonRepro, fmt.Sprintf("%s (seed %d)", k, best.Seed))
			newViolations--
			continue
		}
		if attempts > 1 {
			rep["note"] = fmt.Sprintf("reproduced on attempt %d of the fresh-process replay: the behaviour depends on a source the simulator cannot seed (Go map iteration order)", attempts)
		}
		rep["scenario"] = ro.Scenario
		rep["trace"] = ro.Trace
		rep["hash"] = ro.Hash
		writeJSON(path, rep)
		violLines = append(violLines, fmt.Sprintf("VIOLATION property=%s replay=%s", *prop, path))
		fmt.Printf("  violation class %s\n    %s\n", k, ci.v.Detail)
	}
	for _, nr := range nonRepro {
		fmt.Printf("WARNING: not reproducible in %d fresh processes, not reported: %s\n", 4, nr)
	}
	if len(nonRepro) > 0 && len(violLines) == 0 {
		os.RemoveAll(scratch)
		die(2, "NONDETERMINISM: %d violation class(es) found by the search did not reproduce from their tapes in fresh processes and none did: %s", len(nonRepro), strings.Join(nonRepro, "; "))
	}
	if newViolations <= 0 && len(violLines) == 0 {
		exit = 0
	}
	sort.Strings(knownLines)
	for _, l := range dedupeStr(knownLines) {
		fmt.Println(l)
	}
	for _, l := range violLines {
		fmt.Println(l)
	}

	// evidence
	wallS := time.Since(start).Seconds()
	level := levels[*prop]
	if level == "" {
		level = "exploration"
	}
	zero := []string{}
	for k, v := range tot.Probes {
		if v == 0 {
			zero = append(zero, k)
		}
	}
	sort.Strings(zero)
	runsPerHour := 0.0
	if searchS > 0 {
		runsPerHour = float64(tot.Runs) / searchS * 3600
	}
	if len(tot.Samples) > 3 {
		tot.Samples = tot.Samples[:3]
	}
	if len(tot.Samples) == 0 {
		tot.Samples = []interface{}{"no non-trivial run in this batch"}
	}
	// reach: statements / functions of the property's code that simulated threads actually executed
	sitesTotal, sitesHit := 0, 0
	fnHit := map[string]bool{}
	var stmtsNever []string
	for name, hit := range tot.SitesHit {
		sitesTotal++
		if !hit {
			stmtsNever = append(stmtsNever, name)
		}
		f := strings.Fields(name)
		fn := name
		if len(f) >= 2 {
			fn = f[0][:strings.Index(f[0]+":", ":")] + " " + f[1]
		}
		if hit {
			sitesHit++
			fnHit[fn] = true
		} else if !fnHit[fn] {
			fnHit[fn] = false
		}
	}
	var neverReached []string
	for fn, hit := range fnHit {
		if !hit {
			neverReached = append(neverReached, fn)
		}
	}
	sort.Strings(neverReached)
	sort.Strings(stmtsNever)
	ev := map[string]interface{}{
		"property_id": *prop, "tier": *tier, "seed": seed, "level": level, "wall_s": wallS, "violations": newViolations,
		"assumptions": append([]string{"statement-granular, sequentially consistent interleavings (DESIGN.md §7)",
			"seeded sampling, not enumeration: a clean batch is evidence bounded by the counts below"}, meta.Assumptions...),
		"coverage": map[string]interface{}{
			"evaluations": tot.Runs, "distinct_nontrivial": len(sigs), "rule": meta.Rule, "samples": tot.Samples,
			"nontrivial_runs": tot.Nontrivial, "violating_runs": tot.Violating, "known_finding_classes": len(dedupeStr(knownLines)),
			"inconclusive_runs": tot.Inconclusive, "scheduler_decisions": tot.Steps, "statement_yields": tot.Yields,
			"context_switches": tot.Switches, "simulated_time_s": float64(tot.VTimeNs) / 1e9, "runs_per_hour": runsPerHour,
			"faults_fired": tot.Faults, "probes": tot.Probes, "probes_at_zero": zero, "strategy_mix": tot.Strategies,
			"run_end_reasons": tot.Reasons, "components_real": meta.Real, "components_stub": meta.Stub,
			"determinism_selftest_seeds_x_processes": fmt.Sprintf("%d x 3 (GOMAXPROCS 1/4/16), identical event-log hashes", detSeeds),
			"code_reach": map[string]interface{}{"instrumented_statements_in_scope": sitesTotal, "statements_executed_by_simulated_threads": sitesHit,
				"functions_in_scope": len(fnHit), "functions_never_reached": neverReached, "statements_never_executed": stmtsNever},
			"worker_processes": *workers, "worker_process_gomaxprocs": "4 (three workers in four), 1 (one in four)", "worker_process_restarts_for_memory": len(sigFiles) - *workers, "build_s": buildS, "search_s": searchS, "tree": treeID(),
		},
	}
	writeJSON(filepath.Join(outDir(), "evidence", *prop+".json"), ev)
	fmt.Printf("simcheck: %s %s: %d runs (%d non-trivial, %d distinct interleavings), %d violating, %d new violation classes, %d known-finding classes, %.1fs (build %.1fs)\n",
		*prop, *tier, tot.Runs, tot.Nontrivial, len(sigs), tot.Violating, newViolations, len(dedupeStr(knownLines)), wallS, buildS)
	os.RemoveAll(scratch)
	os.Exit(exit)
}

func dedupeStr(in []string) []string {
	seen := map[string]bool{}
	var out []string
	for _, s := range in {
		if !seen[s] {
			seen[s] = true
			out = append(out, s)
		}
	}
	return out
}

func shortHash(s string) string {
	h := uint32(2166136261)
	for i := 0; i < len(s); i++ {
		h ^= uint32(s[i])
		h *= 16777619
	}
	return fmt.Sprintf("%08x", h)
}

func cmdReplay(args []string) {
	if len(args) < 1 {
		die(2, "usage: simcheck replay <file>")
	}
	b, err := os.ReadFile(args[0])
	if err != nil {
		die(2, "%v", err)
	}
	var rep struct {
		Property    string `json:"property"`
		Tier        string `json:"tier"`
		Clause      string `json:"clause"`
		Fingerprint string `json:"fingerprint"`
		Hash        string `json:"hash"`
		Procs       int    `json:"gomaxprocs"`
	}
	if err := json.Unmarshal(b, &rep); err != nil {
		die(2, "%v", err)
	}
	scratch := mkScratch()
	defer os.RemoveAll(scratch)
	bin := build(scratch, false)
	abs, _ := filepath.Abs(args[0])
	renv := map[string]string{"SIM_MODE": "replay", "SIM_PROP": rep.Property, "SIM_TIER": rep.Tier, "SIM_IN": abs, "SIM_TRACE": "1"}
	if rep.Procs > 0 {
		renv["GOMAXPROCS"] = fmt.Sprint(rep.Procs)
	}
	recs, err := worker(bin, scratch, renv, 300*time.Second, "replay")
	if err != nil || len(recs) == 0 {
		os.RemoveAll(scratch)
		die(2, "replay failed: %v", err)
	}
	var ro runOut
	json.Unmarshal(recs[0]["run"], &ro)
	if ro.Tool != "" {
		os.RemoveAll(scratch)
		die(2, "tool error: %s", ro.Tool)
	}
	for _, l := range ro.Trace {
		fmt.Println(l)
	}
	fmt.Printf("replay: property=%s hash=%s (recorded %s) reason=%s steps=%d\n", rep.Property, ro.Hash, rep.Hash, ro.Reason, ro.Steps)
	code := 0
	for _, v := range ro.Violations {
		fmt.Printf("  %s | %s\n    %s\n", v.Clause, v.Fingerprint, v.Detail)
		if v.Clause == rep.Clause && v.Fingerprint == rep.Fingerprint {
			code = 1
		}
	}
	if code == 1 {
		fmt.Printf("VIOLATION property=%s replay=%s\n", rep.Property, abs)
	} else {
		fmt.Println("replay: the recorded violation did not reproduce on this tree")
	}
	os.RemoveAll(scratch)
	os.Exit(code)
}

// cmdSelftest: determinism self-test. Same seeds in several fresh processes at
// GOMAXPROCS 1, 4 and 16 and under concurrent load must give byte-identical logs.
func cmdSelftest(args []string) {
	fs := flag.NewFlagSet("selftest", flag.ExitOnError)
	propFlag := fs.String("property", "", "property id (default: all)")
	seeds := fs.Int("seeds", 40, "seeds per property")
	tier := fs.String("tier", "quick", "tier")
	fs.Parse(args)
	var props []string
	if *propFlag != "" {
		props = strings.Split(*propFlag, ",")
	} else {
		for p := range budgets {
			props = append(props, p)
		}
		sort.Strings(props)
	}
	scratch := mkScratch()
	defer os.RemoveAll(scratch)
	bin := build(scratch, false)
	bad := 0
	for _, p := range props {
		type cfg struct {
			procs string
			tag   string
		}
		cfgs := []cfg{{"1", "a"}, {"4", "b"}, {"16", "c"}, {"16", "d"}, {"2", "e"}, {"16", "f"}}
		outs := make([][]string, len(cfgs))
		errs := make([]error, len(cfgs))
		var wg sync.WaitGroup
		for i, c := range cfgs {
			wg.Add(1)
			run := func(i int, c cfg) {
				defer wg.Done()
				recs, err := worker(bin, scratch, map[string]string{"SIM_MODE": "hashes", "SIM_PROP": p, "SIM_TIER": *tier, "SIM_RUNS": fmt.Sprint(*seeds),
					"SIM_SEED": "7", "GOMAXPROCS": c.procs}, 600*time.Second, "h"+p+c.tag)
				if err != nil {
					errs[i] = err
					return
				}
				if len(recs) > 0 {
					json.Unmarshal(recs[0]["hashes"], &outs[i])
				}
			}
			if i < 3 {
				run(i, c) // sequentially
			} else {
				go run(i, c) // concurrently (loaded machine)
			}
		}
		wg.Wait()
		ok := true
		for i := range cfgs {
			if errs[i] != nil {
				fmt.Printf("selftest %s: %v\n", p, errs[i])
				ok = false
				continue
			}
			if len(outs[i]) == 0 {
				// property not registered yet in the harness
				continue
			}
			for k := range outs[0] {
				if k >= len(outs[i]) || outs[i][k] != outs[0][k] {
					fmt.Printf("selftest %s: NONDETERMINISM run %d differs between process %s and %s:\n  %s\n  %s\n", p, k, cfgs[0].tag, cfgs[i].tag, outs[0][k], safeIdx(outs[i], k))
					ok = false
					break
				}
			}
			for _, h := range outs[i] {
				if strings.HasPrefix(h, "TOOL:") {
					fmt.Printf("selftest %s: %s\n", p, h)
					ok = false
					break
				}
			}
		}
		if ok {
			fmt.Printf("selftest %s: %d seeds x %d processes identical\n", p, len(outs[0]), len(cfgs))
		} else {
			bad++
		}
	}
	os.RemoveAll(scratch)
	if bad > 0 {
		os.Exit(2)
	}
}

func safeIdx(s []string, i int) string {
	if i < len(s) {
		return s[i]
	}
	return "<missing>"
}

// cmdTransparency runs the repository's stable tests on the instrumented copy in pass-through mode.
func cmdTransparency() {
	scratch := mkScratch()
	defer os.RemoveAll(scratch)
	build(scratch, true)
	b, err := os.ReadFile("/root/.vp/BASELINE.json")
	var names []string
	if err == nil {
		var bl struct {
			Stable []string `json:"stable_pass"`
		}
		json.Unmarshal(b, &bl)
		seen := map[string]bool{}
		for _, s := range bl.Stable {
			if i := strings.Index(s, "::"); i >= 0 {
				n := s[i+2:]
				if !seen[n] {
					seen[n] = true
					names = append(names, n)
				}
			}
		}
	}
	args := []string{"test", "-vet=off", "-count=1"}
	if len(names) > 0 {
		args = append(args, "-run", "^("+strings.Join(names, "|")+")$")
	}
	args = append(args, "./...")
	// the repository's worker tests assert worker counts after millisecond sleeps and are
	// sensitive to machine load; a timing flake is not what this self-test is about, so retry.
	err = nil
	for attempt := 1; attempt <= 4; attempt++ {
		c := exec.Command(goBin, args...)
		c.Dir = filepath.Join(scratch, "fpgo")
		c.Env = goEnv()
		var out []byte
		out, err = c.CombinedOutput()
		fmt.Print(string(out))
		if err == nil {
			break
		}
		fmt.Printf("transparency: attempt %d failed\n", attempt)
	}
	os.RemoveAll(scratch)
	if err != nil {
		die(2, "transparency self-test failed: the instrumented copy does not pass the repository's stable tests in pass-through mode")
	}
	fmt.Println("transparency: stable baseline tests pass on the instrumented copy (pass-through mode)")
}

func main() {
	if len(os.Args) < 2 {
		die(2, "usage: simcheck run|replay|selftest|transparency ...")
	}
	if v := os.Getenv("VERIF_REPO"); v != "" {
		repoDir = v
	}
	if v := os.Getenv("VERIF_DIR"); v != "" {
		verifDir = v
	}
	switch os.Args[1] {
	case "run":
		cmdRun(os.Args[2:])
	case "replay":
		cmdReplay(os.Args[2:])
	case "selftest":
		cmdSelftest(os.Args[2:])
	case "transparency":
		cmdTransparency()
	default:
		die(2, "unknown command %q", os.Args[1])
	}
}
