package harness

import (
	"fmt"
	"time"

	fpgo "github.com/TeaEntityLab/fpGo/v2"
	"verif.local/simrt"
)

// C06 — LinkedListQueue is a correct deque for every operation sequence. The only
// nondeterminism is the sync.Pool node allocator, which the simulator owns (retain / drop /
// reuse newest / reuse oldest / fresh); everything else is a function of the history.

func init() {
	register(&Property{
		ID:    "C06",
		Files: []string{"queue.go"},
		Funcs: []string{"LinkedListQueue"},
		Gen:   genC06,
		Rule: "one simulated thread runs a history of 1..40 operations over {Offer, Put, Push, Unshift, Poll, Take, Shift, Pop, Peek, Count, Clear, KeepNodePoolCount(n in -1..6), ClearNodePool} (each run enables a random subset, " +
			"short histories favoured) on one LinkedListQueue viewed as the concrete type, Queue[T] and Stack[T], element type int or a struct; the sync.Pool behind the node free-list is simulated (drop on Put, reuse newest/oldest, fresh); " +
			"a reference deque is stepped in lock-step (return values, errors, Count, Peek after every step, final drain from alternating ends); non-trivial = the history mixes head and tail removals or node-pool maintenance with >=3 elements stored; " +
			"distinct = distinct (operation history, allocator decisions)",
		Real:        []string{"fpgo.LinkedListQueue (all methods, node free-list)"},
		Stub:        []string{"sync.Pool (simulated allocator: the only schedule-like nondeterminism of this property)"},
		Assumptions: []string{"weakest fit for simulation: apart from the allocator the property is a function of the operation history; bounded-exhaustive enumeration would be the stronger technique for that part (DESIGN.md §5.6)"},
	})
}

type c06Op struct {
	Kind string `json:"op"`
	N    int    `json:"n,omitempty"`
}

type c06Scenario struct {
	Ops       []c06Op `json:"ops"`
	Struct    bool    `json:"struct_elements"`
	Any       bool    `json:"interface_elements_some_of_them_nil,omitempty"`
	Companion bool    `json:"a_second_queue_of_another_element_type_is_used_alongside,omitempty"`
	Long      bool    `json:"long_backlogs,omitempty"`

	h      *Hist
	probes map[string]int
	extra  []Violation
	sig    uint64
}

var c06Kinds = []string{"Offer", "Put", "Push", "Unshift", "Poll", "Take", "Shift", "Pop", "Peek", "Count", "Clear", "KeepNodePoolCount", "ClearNodePool"}

func genC06(t *simrt.Tape, tier string) Scenario {
	sc := &c06Scenario{probes: map[string]int{}}
	sc.Struct = t.Bool(1, 3)
	sc.Any = !sc.Struct && t.Bool(1, 4)
	sc.Companion = t.Bool(1, 4) // queues are independent objects, whatever their element types
	// swarm: a random subset of operations, adds always possible
	var enabled []string
	for _, k := range c06Kinds {
		if t.Bool(2, 3) {
			enabled = append(enabled, k)
		}
	}
	if len(enabled) == 0 {
		enabled = []string{"Offer", "Pop", "Shift"}
	}
	maxN := 24
	if tier == "thorough" {
		maxN = 40
	}
	if t.Bool(1, 40) {
		// long backlogs: several hundred nodes go through the free list and the allocator twice
		// (thresholds and caps inside the node recycling are far above what short histories reach)
		rnd := func(k int) {
			for i := 0; i < k; i++ {
				op := c06Op{Kind: enabled[t.Choose(len(enabled))]}
				if op.Kind == "KeepNodePoolCount" {
					op.N = []int{-1, 0, 1, 7, 100, 200}[t.Choose(6)]
				}
				sc.Ops = append(sc.Ops, op)
			}
		}
		for round := 0; round < 2; round++ {
			sc.Ops = append(sc.Ops, c06Op{Kind: "OfferBurst", N: 100 + t.Choose(120)})
			rnd(t.Choose(3))
			sc.Ops = append(sc.Ops, c06Op{Kind: "DrainBurst"})
			rnd(t.Choose(3))
		}
		rnd(1 + t.Choose(6))
		sc.Long = true
		return sc
	}
	n := 1 + t.Choose(6)
	if t.Bool(1, 2) {
		n = 1 + t.Choose(maxN)
	}
	for i := 0; i < n; i++ {
		op := c06Op{Kind: enabled[t.Choose(len(enabled))]}
		if i < 3 && t.Bool(1, 2) {
			op.Kind = []string{"Offer", "Push", "Unshift", "Put"}[t.Choose(4)]
		}
		if op.Kind == "KeepNodePoolCount" {
			op.N = t.Choose(8) - 1
		}
		sc.Ops = append(sc.Ops, op)
	}
	return sc
}

func (sc *c06Scenario) Describe() interface{} { return sc }
func (sc *c06Scenario) Config() simrt.Config {
	return simrt.Config{Horizon: time.Hour, MaxSteps: 100000, MaxYields: 3000000, NoStall: true}
}
func (sc *c06Scenario) Probes() map[string]int { return sc.probes }
func (sc *c06Scenario) Nontrivial(res *simrt.Result) bool {
	return sc.probes["head-and-tail-removals-mixed"] > 0 || sc.probes["pool-maintenance-with-3+-stored"] > 0
}

type c06Elem struct {
	A int
	B string
}

// c06Deque abstracts over the two element types.
type c06Deque interface {
	Add(kind string, v int) error
	Remove(kind string) (int, error)
	Peek() (int, error)
	Count() int
	Clear()
	Keep(n int)
	ClearPool()
}

type c06Int struct {
	q *fpgo.LinkedListQueue[int]
}

func (d c06Int) Add(kind string, v int) error {
	switch kind {
	case "Offer":
		return d.q.Offer(v)
	case "Put":
		return fpgo.Queue[int](d.q).Put(v)
	case "Push":
		return fpgo.Stack[int](d.q).Push(v)
	default:
		return d.q.Unshift(v)
	}
}
func (d c06Int) Remove(kind string) (int, error) {
	switch kind {
	case "Poll":
		return fpgo.Queue[int](d.q).Poll()
	case "Take":
		return fpgo.Queue[int](d.q).Take()
	case "Shift":
		return d.q.Shift()
	default:
		return fpgo.Stack[int](d.q).Pop()
	}
}
func (d c06Int) Peek() (int, error) { return d.q.Peek() }
func (d c06Int) Count() int         { return d.q.Count() }
func (d c06Int) Clear()             { d.q.Clear() }
func (d c06Int) Keep(n int)         { d.q.KeepNodePoolCount(n) }
func (d c06Int) ClearPool()         { d.q.ClearNodePool() }

type c06Str struct {
	q *fpgo.LinkedListQueue[c06Elem]
}

func mk(v int) c06Elem { return c06Elem{A: v, B: fmt.Sprint("s", v)} }
func un(e c06Elem, err error) (int, error) {
	if err == nil && e.B != fmt.Sprint("s", e.A) {
		return -e.A - 1000000, nil
	}
	return e.A, err
}

func (d c06Str) Add(kind string, v int) error {
	switch kind {
	case "Offer":
		return d.q.Offer(mk(v))
	case "Put":
		return fpgo.Queue[c06Elem](d.q).Put(mk(v))
	case "Push":
		return fpgo.Stack[c06Elem](d.q).Push(mk(v))
	default:
		return d.q.Unshift(mk(v))
	}
}
func (d c06Str) Remove(kind string) (int, error) {
	switch kind {
	case "Poll":
		return un(fpgo.Queue[c06Elem](d.q).Poll())
	case "Take":
		return un(fpgo.Queue[c06Elem](d.q).Take())
	case "Shift":
		return un(d.q.Shift())
	default:
		return un(fpgo.Stack[c06Elem](d.q).Pop())
	}
}
func (d c06Str) Peek() (int, error) { return un(d.q.Peek()) }
func (d c06Str) Count() int         { return d.q.Count() }
func (d c06Str) Clear()             { d.q.Clear() }
func (d c06Str) Keep(n int)         { d.q.KeepNodePoolCount(n) }
func (d c06Str) ClearPool()         { d.q.ClearNodePool() }

// c06Any: interface-typed elements; every fourth value is stored as an untyped nil (a value like any other: the model
// remembers it as -4).
type c06Any struct {
	q *fpgo.LinkedListQueue[interface{}]
}

func c06AnyModel(v int) int {
	if v%4 == 0 {
		return -4
	}
	return v
}
func mkAny(v int) interface{} {
	if v%4 == 0 {
		return nil
	}
	return v
}
func unAny(e interface{}, err error) (int, error) {
	if err != nil {
		return 0, err
	}
	if e == nil {
		return -4, nil
	}
	if i, ok := e.(int); ok {
		return i, nil
	}
	return -999999, nil
}
func (d c06Any) Add(kind string, v int) error {
	switch kind {
	case "Offer":
		return d.q.Offer(mkAny(v))
	case "Put":
		return fpgo.Queue[interface{}](d.q).Put(mkAny(v))
	case "Push":
		return fpgo.Stack[interface{}](d.q).Push(mkAny(v))
	default:
		return d.q.Unshift(mkAny(v))
	}
}
func (d c06Any) Remove(kind string) (int, error) {
	switch kind {
	case "Poll":
		return unAny(fpgo.Queue[interface{}](d.q).Poll())
	case "Take":
		return unAny(fpgo.Queue[interface{}](d.q).Take())
	case "Shift":
		return unAny(d.q.Shift())
	default:
		return unAny(fpgo.Stack[interface{}](d.q).Pop())
	}
}
func (d c06Any) Peek() (int, error) { return unAny(d.q.Peek()) }
func (d c06Any) Count() int         { return d.q.Count() }
func (d c06Any) Clear()             { d.q.Clear() }
func (d c06Any) Keep(n int)         { d.q.KeepNodePoolCount(n) }
func (d c06Any) ClearPool()         { d.q.ClearNodePool() }

func (sc *c06Scenario) Run(s *simrt.Sim) {
	h := &Hist{S: s}
	sc.h = h
	var d c06Deque
	if sc.Any {
		d = c06Any{fpgo.NewLinkedListQueue[interface{}]()}
		sc.probes["interface-elements-with-nils"]++
	} else if sc.Struct {
		d = c06Str{fpgo.NewLinkedListQueue[c06Elem]()}
	} else {
		d = c06Int{fpgo.NewLinkedListQueue[int]()}
	}
	var model []int
	next := 1
	var trail []string
	fail := func(clause, fp, detail string) {
		sc.extra = append(sc.extra, Violation{Clause: clause, Fingerprint: fp, Detail: detail + "; history so far: " + fmt.Sprint(trail)})
	}
	headRem, tailRem := false, false
	// observe: Count and Peek must agree with the model after every step
	observe := func(after string) bool {
		op := h.Do("t", "Count", nil, func() (interface{}, error) { return d.Count(), nil })
		if op.Panic != "" {
			return false
		}
		if op.Val != len(model) {
			fail("count", "Count-after-"+after, fmt.Sprintf("Count()=%v, the sequence has %d elements %v", op.Val, len(model), model))
			return false
		}
		op = h.Do("t", "Peek", nil, func() (interface{}, error) { return d.Peek() })
		if op.Panic != "" {
			return false
		}
		if len(model) == 0 {
			if op.Err != fpgo.ErrQueueIsEmpty {
				fail("peek", "Peek-on-empty-after-"+after, fmt.Sprintf("Peek() on an empty sequence: %s", op.String()))
				return false
			}
		} else if op.Err != nil || op.Val != model[0] {
			fail("peek", "Peek-after-"+after, fmt.Sprintf("Peek(): %s, the head is %d of %v", op.String(), model[0], model))
			return false
		}
		return true
	}
	remove := func(kind string) bool {
		op := h.Do("t", kind, nil, func() (interface{}, error) { return d.Remove(kind) })
		if op.Panic != "" {
			return false
		}
		emptyErr := fpgo.ErrQueueIsEmpty
		if kind == "Pop" {
			emptyErr = fpgo.ErrStackIsEmpty
		}
		if len(model) == 0 {
			if op.Err != emptyErr {
				fail("removal", kind+"-on-empty", fmt.Sprintf("%s on an empty sequence; want %v", op.String(), emptyErr))
				return false
			}
			return true
		}
		var want int
		if kind == "Pop" {
			want = model[len(model)-1]
			model = model[:len(model)-1]
			tailRem = true
		} else {
			want = model[0]
			model = model[1:]
			headRem = true
		}
		if op.Err != nil || op.Val != want {
			fail("removal", kind+"-wrong-result", fmt.Sprintf("%s; the ideal sequence yields %d", op.String(), want))
			return false
		}
		return true
	}
	// a second queue of another element type lives beside the one under test (and works as a queue itself)
	var comp *fpgo.LinkedListQueue[string]
	var compModel []string
	compN := 0
	compStep := func() {
		if comp == nil {
			comp = fpgo.NewLinkedListQueue[string]()
		}
		compN++
		k := compN
		op := h.Do("t", "companion-queue-step", k, func() (interface{}, error) {
			switch k % 6 {
			case 1, 2, 5:
				v := fmt.Sprintf("s%d", k)
				compModel = append(compModel, v)
				return nil, comp.Offer(v)
			case 3:
				comp.KeepNodePoolCount(2)
			case 4:
				comp.ClearNodePool()
			case 0:
				v, err := comp.Poll()
				if len(compModel) == 0 {
					if err != fpgo.ErrQueueIsEmpty {
						return v, fmt.Errorf("Poll on the empty companion queue returned (%q, %v)", v, err)
					}
					return nil, nil
				}
				want := compModel[0]
				compModel = compModel[1:]
				if err != nil || v != want {
					return v, fmt.Errorf("companion Poll returned (%q, %v), want %q", v, err, want)
				}
			}
			return nil, nil
		})
		if op.Panic == "" && op.Err != nil {
			fail("independence", "companion-queue-of-another-element-type", op.Err.Error())
		}
	}
	for oi, o := range sc.Ops {
		if sc.Companion && oi%3 == 0 {
			compStep()
		}
		trail = append(trail, fmt.Sprintf("%s%s", o.Kind, nStr(o)))
		ok := true
		switch o.Kind {
		case "Offer", "Put", "Push", "Unshift":
			v := next
			next++
			op := h.Do("t", o.Kind, v, func() (interface{}, error) { return nil, d.Add(o.Kind, v) })
			if op.Panic != "" {
				ok = false
				break
			}
			if op.Err != nil {
				fail("insert", o.Kind+"-error", op.String())
				ok = false
				break
			}
			if sc.Any {
				v = c06AnyModel(v)
			}
			if o.Kind == "Unshift" {
				model = append([]int{v}, model...)
			} else {
				model = append(model, v)
			}
		case "Poll", "Take", "Shift", "Pop":
			ok = remove(o.Kind)
		case "OfferBurst":
			for i := 0; i < o.N && ok; i++ {
				v := next
				next++
				op := h.Do("t", "Offer", v, func() (interface{}, error) { return nil, d.Add("Offer", v) })
				if op.Panic != "" || op.Err != nil {
					if op.Err != nil {
						fail("insert", "Offer-error", op.String())
					}
					ok = false
					break
				}
				if sc.Any {
					v = c06AnyModel(v)
				}
				model = append(model, v)
			}
			sc.probes["long-backlog"]++
		case "DrainBurst":
			for len(model) > 0 && ok {
				ok = remove("Poll")
			}
		case "Peek", "Count":
			// covered by observe
		case "Clear":
			op := h.Do("t", "Clear", nil, func() (interface{}, error) { d.Clear(); return nil, nil })
			ok = op.Panic == ""
			model = nil
		case "KeepNodePoolCount":
			if len(model) >= 3 {
				sc.probes["pool-maintenance-with-3+-stored"]++
			}
			op := h.Do("t", "KeepNodePoolCount", o.N, func() (interface{}, error) { d.Keep(o.N); return nil, nil })
			ok = op.Panic == ""
		case "ClearNodePool":
			if len(model) >= 3 {
				sc.probes["pool-maintenance-with-3+-stored"]++
			}
			op := h.Do("t", "ClearNodePool", nil, func() (interface{}, error) { d.ClearPool(); return nil, nil })
			ok = op.Panic == ""
		}
		if !ok || !observe(o.Kind) {
			return
		}
		if headRem && tailRem {
			sc.probes["head-and-tail-removals-mixed"] = 1
		}
	}
	// final drain from alternating ends
	trail = append(trail, "drain")
	for i := 0; len(model) > 0 || i == 0; i++ {
		kind := "Shift"
		if i%2 == 1 {
			kind = "Pop"
		}
		if !remove(kind) || !observe("drain-"+kind) {
			return
		}
		if len(model) == 0 {
			remove("Pop")
			remove("Poll")
			break
		}
	}
}

// Signature: the operation history plus the allocator decisions that fired.
func (sc *c06Scenario) Signature(res *simrt.Result) string {
	return fmt.Sprint(sc.Ops, sc.Struct, sc.Any, res.Faults)
}

func nStr(o c06Op) string {
	if o.Kind == "KeepNodePoolCount" || o.Kind == "OfferBurst" {
		return fmt.Sprintf("(%d)", o.N)
	}
	return ""
}

func (sc *c06Scenario) Check(res *simrt.Result) []Violation {
	var vs []Violation
	vs = append(vs, goroutinePanics(res)...)
	if sc.h == nil {
		return vs
	}
	vs = append(vs, opPanics(sc.h)...)
	vs = append(vs, sc.extra...)
	if res.Reason != "done" {
		at := "?"
		if len(res.Threads) > 1 {
			at = simrt.SiteFunc(res.Threads[0].BlockedAt)
		}
		for _, th := range res.Threads {
			if th.Name == "main" {
				at = simrt.SiteFunc(th.LastSite())
			}
		}
		vs = append(vs, Violation{Clause: "livelock", Fingerprint: "history-does-not-terminate in " + at, Detail: "the single-threaded history did not finish (reason " + res.Reason + "): " + pendingOps(sc.h)})
	}
	return dedupe(vs)
}
