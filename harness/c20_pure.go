package harness

import (
	"errors"
	"fmt"
	"reflect"
	"strings"
	"time"

	fpgo "github.com/TeaEntityLab/fpGo/v2"
	"verif.local/simrt"
)

// C20, pure clauses (Compose/Pipe, CurryParamN / MakeVariadic* adapters, Trampoline, MatchFor/Either,
// NewCompData). These are functions of their inputs: nothing here is decided by a schedule or a fault, so
// this part is seeded input generation against small reference implementations, NOT simulation. It rides
// on the C20 scenario (same tape, same shrinking and replay) so that a change that only breaks these
// clauses is not invisible to the C20 check; the one schedule-relevant ingredient is that composed
// functions are also evaluated from two threads at once and that caller-owned slices are reused.

type c20Pure struct {
	On          bool  `json:"checked_in_this_run"`
	Fns         []int `json:"function_list"` // indices into the family of distinguishable functions
	Split       int   `json:"regroup_at"`
	Iface       bool  `json:"interface_variants"`
	TrampN      int   `json:"trampoline_steps"`
	TrampErr    int   `json:"trampoline_error_at"` // 0 = never
	Patterns    []int `json:"pattern_list"`        // permutation/subset of the five pattern kinds
	Otherwise   bool  `json:"with_otherwise"`
	OtherwiseAt int   `json:"otherwise_at_position"` // -1: last
	EffPanic    bool  `json:"effect_of_first_match_panics"`
	EffNil      bool  `json:"effects_return_nil"`
	Arity       int   `json:"adapter_arity"`
}

func genC20Pure(t *simrt.Tape) c20Pure {
	var p c20Pure
	p.On = t.Bool(1, 3)
	if !p.On {
		return p
	}
	n := 1 + t.Choose(6)
	for i := 0; i < n; i++ {
		p.Fns = append(p.Fns, t.Choose(8)) // (6 and 7 return nothing at all: nil / an empty tuple)
	}
	p.Split = t.Choose(n + 1)
	p.Iface = t.Bool(1, 3)
	p.TrampN = 1 + t.Choose(7)
	if t.Bool(1, 3) {
		p.TrampErr = 1 + t.Choose(p.TrampN)
	}
	// a subset of the pattern kinds in a random order (0 kind-int, 1 sum type, 2 equal, 3 regex, 4 kind-string,
	// 5 a regex rule that does not compile: it accepts nothing, every time it is consulted)
	// 6 kind-slice (accepts every slice, a nil one included: its kind is Slice)
	// 7 equal to one particular pointer (pointers are comparable: only that very pointer is equal to it)
	// 8 a regex that also accepts the empty string (^a*$)
	pool := []int{0, 1, 2, 3, 4, 5, 6, 7, 8}
	k := 1 + t.Choose(9)
	for i := 0; i < k; i++ {
		j := t.Choose(len(pool))
		p.Patterns = append(p.Patterns, pool[j])
		pool = append(pool[:j], pool[j+1:]...)
	}
	p.Otherwise = t.Bool(1, 2)
	p.OtherwiseAt = -1
	if p.Otherwise && t.Bool(1, 3) {
		p.OtherwiseAt = t.Choose(len(p.Patterns) + 1)
	}
	p.EffPanic = t.Bool(1, 4)
	p.EffNil = !p.EffPanic && t.Bool(1, 4)
	p.Arity = 1 + t.Choose(6)
	return p
}

type c20sfn = func(...string) []string

// the family: pairwise distinguishable, non-commutative, some change the number of values
func c20Family() []c20sfn {
	tag := func(name string) c20sfn {
		return func(a ...string) []string { return []string{name + "(" + strings.Join(a, ",") + ")"} }
	}
	return []c20sfn{
		tag("a"),
		tag("b"),
		func(a ...string) []string { return []string{"c(" + strings.Join(a, ",") + ")", "c2"} },
		func(a ...string) []string {
			out := make([]string, 0, len(a))
			for i := len(a) - 1; i >= 0; i-- {
				out = append(out, "d:"+a[i])
			}
			return out
		},
		func(a ...string) []string { return append([]string{fmt.Sprintf("e%d", len(a))}, a...) },
		func(a ...string) []string {
			if len(a) == 0 {
				return []string{"f-empty"}
			}
			return []string{"f[" + a[0] + "]"}
		},
		func(a ...string) []string { return nil },        // drops everything; what follows still runs, on an empty tuple
		func(a ...string) []string { return []string{} }, // the same with an empty, non-nil result
	}
}

// reference: Compose(f1..fn)(x) = f1(f2(...fn(x)))
func c20RefCompose(fs []c20sfn, in []string) []string {
	cur := in
	for i := len(fs) - 1; i >= 0; i-- {
		cur = fs[i](cur...)
	}
	return cur
}

type c20T struct{ A int }

func (sc *c20Scenario) runPure(s *simrt.Sim, h *Hist) {
	p := sc.Pure
	if !p.On {
		return
	}
	sc.probes["pure-clauses-checked"]++
	bad := func(clause, fp, detail string) {
		sc.smoke = append(sc.smoke, Violation{Clause: clause, Fingerprint: fp, Detail: detail + fmt.Sprintf(" [pure-clause inputs %+v]", p)})
	}
	fam := c20Family()
	in := []string{"x", "y"}
	// ---- Compose / Pipe ------------------------------------------------------------------------
	// the caller keeps its function list in a slice (with spare capacity) and spreads it
	fs := make([]c20sfn, 0, len(p.Fns)+3)
	for _, i := range p.Fns {
		fs = append(fs, fam[i])
	}
	ref := append([]c20sfn{}, fs...)
	rev := make([]c20sfn, 0, len(fs))
	for i := len(fs) - 1; i >= 0; i-- {
		rev = append(rev, fs[i])
	}
	wantC := fmt.Sprint(c20RefCompose(ref, in))
	wantP := fmt.Sprint(c20RefCompose(rev, in))
	h.Do("main", "compose-pipe", p.Fns, func() (interface{}, error) {
		compose, pipe := fpgo.Compose[string], fpgo.Pipe[string]
		comp1 := compose(fs...)
		pipe1 := pipe(fs...)
		comp2 := compose(fs...)
		pipe2 := pipe(fs...)
		for round := 0; round < 2; round++ {
			for name, got := range map[string]string{"Compose": fmt.Sprint(comp1(in...)), "Compose(built-after-a-Pipe)": fmt.Sprint(comp2(in...))} {
				if got != wantC {
					bad("compose", "Compose-order", fmt.Sprintf("%s(fs...)(x,y) = %s, want f1(f2(...fn(x,y))) = %s (functions %v, evaluation %d)", name, got, wantC, p.Fns, round))
				}
			}
			for name, got := range map[string]string{"Pipe": fmt.Sprint(pipe1(in...)), "Pipe(second-build-from-the-same-slice)": fmt.Sprint(pipe2(in...))} {
				if got != wantP {
					bad("compose", "Pipe-order", fmt.Sprintf("%s(fs...)(x,y) = %s, want fn(...f1(x,y)) = %s (functions %v, evaluation %d)", name, got, wantP, p.Fns, round))
				}
			}
		}
		// Compose(fs) = Pipe(reverse(fs))
		if got := fmt.Sprint(pipe(rev...)(in...)); got != wantC {
			bad("compose", "Compose-vs-Pipe-reverse", fmt.Sprintf("Pipe(reverse(fs))(x,y) = %s, Compose(fs)(x,y) must be %s", got, wantC))
		}
		// associativity under regrouping
		if p.Split > 0 && p.Split < len(fs) {
			if got := fmt.Sprint(compose(compose(fs[:p.Split]...), compose(fs[p.Split:]...))(in...)); got != wantC {
				bad("compose", "Compose-regrouping", fmt.Sprintf("Compose(Compose(fs[:%d]), Compose(fs[%d:]))(x,y) = %s, want %s", p.Split, p.Split, got, wantC))
			}
			if got := fmt.Sprint(pipe(pipe(fs[:p.Split]...), pipe(fs[p.Split:]...))(in...)); got != wantP {
				bad("compose", "Pipe-regrouping", fmt.Sprintf("Pipe(Pipe(fs[:%d]), Pipe(fs[%d:]))(x,y) = %s, want %s", p.Split, p.Split, got, wantP))
			}
			// the pieces built from sub-slices and the whole built afterwards still agree
			if got := fmt.Sprint(compose(fs...)(in...)); got != wantC {
				bad("compose", "Compose-after-regrouping", fmt.Sprintf("Compose(fs...) built after Compose/Pipe of sub-slices gives %s, want %s", got, wantC))
			}
		}
		if p.Iface {
			var ifs []func(...interface{}) []interface{}
			for _, f := range ref {
				f := f
				ifs = append(ifs, func(a ...interface{}) []interface{} {
					var sa []string
					for _, x := range a {
						sa = append(sa, x.(string))
					}
					var out []interface{}
					for _, x := range f(sa...) {
						out = append(out, x)
					}
					return out
				})
			}
			if got := fmt.Sprint(fpgo.ComposeInterface(ifs...)("x", "y")); got != wantC {
				bad("compose", "ComposeInterface-order", fmt.Sprintf("ComposeInterface = %s, want %s", got, wantC))
			}
			if got := fmt.Sprint(fpgo.PipeInterface(ifs...)("x", "y")); got != wantP {
				bad("compose", "PipeInterface-order", fmt.Sprintf("PipeInterface = %s, want %s", got, wantP))
			}
		}
		return nil, nil
	})
	// the caller's slice must still hold its functions in the caller's order
	for i := range fs {
		if fmt.Sprint(fs[i]("q")) != fmt.Sprint(ref[i]("q")) {
			bad("compose", "caller-slice-modified", fmt.Sprintf("after Compose(fs...)/Pipe(fs...) the caller's function slice changed at index %d", i))
			break
		}
	}
	// one composed function evaluated from two threads at once (each evaluation is independent)
	{
		comp := fpgo.Compose(fs...)
		pp := fpgo.Pipe(fs...)
		var ths []*simrt.Thread
		for ti := 0; ti < 2; ti++ {
			arg := []string{fmt.Sprintf("t%d", ti)}
			name := fmt.Sprintf("eval%d", ti)
			wc, wp := fmt.Sprint(c20RefCompose(ref, arg)), fmt.Sprint(c20RefCompose(rev, arg))
			ths = append(ths, s.Go(name, func() {
				h.Do(name, "evaluate-composition", arg, func() (interface{}, error) {
					s.Yield()
					if got := fmt.Sprint(comp(arg...)); got != wc {
						bad("compose", "Compose-concurrent-evaluation", fmt.Sprintf("Compose(fs)(%v) = %s, want %s", arg, got, wc))
					}
					s.Yield()
					if got := fmt.Sprint(pp(arg...)); got != wp {
						bad("compose", "Pipe-concurrent-evaluation", fmt.Sprintf("Pipe(fs)(%v) = %s, want %s", arg, got, wp))
					}
					return nil, nil
				})
			}))
		}
		if !s.WaitUntilTimeout(allDone(ths), 10*time.Minute) {
			sc.hung = true
			return
		}
	}
	// ---- adapters ---------------------------------------------------------------------------------
	h.Do("main", "adapters", p.Arity, func() (interface{}, error) {
		rest := []string{"r1", "r2", "r3"}
		show := func(bound []interface{}, a []string) string { return fmt.Sprint(bound, a) }
		var got, want string
		switch p.Arity {
		case 1:
			got = fpgo.CurryParam1(func(a int, r ...string) string { return show([]interface{}{a}, r) }, 1)(rest...)
			want = show([]interface{}{1}, rest)
			if g2 := fpgo.CurryParam1ForSlice1(func(a int, r []string) string { return show([]interface{}{a}, r) }, 1)(rest...); g2 != want {
				bad("adapters", "CurryParam1ForSlice1", fmt.Sprintf("got %s want %s", g2, want))
			}
		case 2:
			got = fpgo.CurryParam2(func(a int, b string, r ...string) string { return show([]interface{}{a, b}, r) }, 1, "B")(rest...)
			want = show([]interface{}{1, "B"}, rest)
		case 3:
			got = fpgo.CurryParam3(func(a int, b string, c float64, r ...string) string { return show([]interface{}{a, b, c}, r) }, 1, "B", 3.5)(rest...)
			want = show([]interface{}{1, "B", 3.5}, rest)
		case 4:
			got = fpgo.CurryParam4(func(a int, b string, c float64, d bool, r ...string) string {
				return show([]interface{}{a, b, c, d}, r)
			}, 1, "B", 3.5, true)(rest...)
			want = show([]interface{}{1, "B", 3.5, true}, rest)
		case 5:
			got = fpgo.CurryParam5(func(a int, b string, c float64, d bool, e rune, r ...string) string {
				return show([]interface{}{a, b, c, d, e}, r)
			}, 1, "B", 3.5, true, 'e')(rest...)
			want = show([]interface{}{1, "B", 3.5, true, 'e'}, rest)
		case 6:
			got = fpgo.CurryParam6(func(a int, b string, c float64, d bool, e rune, f uint8, r ...string) string {
				return show([]interface{}{a, b, c, d, e, f}, r)
			}, 1, "B", 3.5, true, 'e', uint8(6))(rest...)
			want = show([]interface{}{1, "B", 3.5, true, 'e', uint8(6)}, rest)
		}
		if got != want {
			bad("adapters", fmt.Sprintf("CurryParam%d", p.Arity), fmt.Sprintf("the curried function received %s, want bound arguments then supplied arguments %s", got, want))
		}
		// MakeVariadicParamN passes exactly the first N supplied arguments, in order
		args := []string{"p1", "p2", "p3", "p4", "p5", "p6", "p7"}
		var gv []string
		switch p.Arity {
		case 1:
			gv = fpgo.MakeVariadicParam1(func(a string) []string { return []string{a} })(args...)
		case 2:
			gv = fpgo.MakeVariadicParam2(func(a, b string) []string { return []string{a, b} })(args...)
		case 3:
			gv = fpgo.MakeVariadicParam3(func(a, b, c string) []string { return []string{a, b, c} })(args...)
		case 4:
			gv = fpgo.MakeVariadicParam4(func(a, b, c, d string) []string { return []string{a, b, c, d} })(args...)
		case 5:
			gv = fpgo.MakeVariadicParam5(func(a, b, c, d, e string) []string { return []string{a, b, c, d, e} })(args...)
		case 6:
			gv = fpgo.MakeVariadicParam6(func(a, b, c, d, e, f string) []string { return []string{a, b, c, d, e, f} })(args...)
		}
		if fmt.Sprint(gv) != fmt.Sprint(args[:p.Arity]) {
			bad("adapters", fmt.Sprintf("MakeVariadicParam%d", p.Arity), fmt.Sprintf("the wrapped function received %v, want %v", gv, args[:p.Arity]))
		}
		// MakeVariadicReturnN passes all arguments and returns the N results in order
		var gr []string
		var ad func(...string) []string
		j := func(a []string) string { return strings.Join(a, "+") }
		switch p.Arity {
		case 1:
			ad = fpgo.MakeVariadicReturn1(func(a ...string) string { return j(a) })
		case 2:
			ad = fpgo.MakeVariadicReturn2(func(a ...string) (string, string) { return j(a), "2" })
		case 3:
			ad = fpgo.MakeVariadicReturn3(func(a ...string) (string, string, string) { return j(a), "2", "3" })
		case 4:
			ad = fpgo.MakeVariadicReturn4(func(a ...string) (string, string, string, string) { return j(a), "2", "3", "4" })
		case 5:
			ad = fpgo.MakeVariadicReturn5(func(a ...string) (string, string, string, string, string) { return j(a), "2", "3", "4", "5" })
		case 6:
			ad = fpgo.MakeVariadicReturn6(func(a ...string) (string, string, string, string, string, string) {
				return j(a), "2", "3", "4", "5", "6"
			})
		}
		// (one adapter, called twice: what the first call returned is the caller's and does not change with the second)
		gr = ad(args...)
		ad("zz", "yy")
		wr := []string{j(args), "2", "3", "4", "5", "6"}[:p.Arity]
		if fmt.Sprint(gr) != fmt.Sprint(wr) {
			bad("adapters", fmt.Sprintf("MakeVariadicReturn%d", p.Arity), fmt.Sprintf("got %v, want %v", gr, wr))
		}
		return nil, nil
	})
	// ---- Trampoline -------------------------------------------------------------------------------
	h.Do("main", "trampoline", p.TrampN, func() (interface{}, error) {
		calls := 0
		errStep := errors.New("step failed")
		var seen []string
		res, err := fpgo.Trampoline(func(a ...int) ([]int, bool, error) {
			calls++
			seen = append(seen, fmt.Sprint(a))
			if p.TrampErr > 0 && calls == p.TrampErr {
				return []int{a[0] - 1, a[1]}, a[0]-1 <= 0, errStep
			}
			// a[0] counts down, a[1] accumulates
			return []int{a[0] - 1, a[1] + a[0]}, a[0]-1 == 0, nil
		}, p.TrampN, 0)
		if p.TrampErr > 0 {
			if err != errStep || res != nil || calls != p.TrampErr {
				bad("trampoline", "error-stops-iteration", fmt.Sprintf("the step failed at call %d: Trampoline returned (%v, %v) after %d calls, want (nil, the step's error) after %d calls", p.TrampErr, res, err, calls, p.TrampErr))
			}
			return nil, nil
		}
		sum := p.TrampN * (p.TrampN + 1) / 2
		if err != nil || calls != p.TrampN || fmt.Sprint(res) != fmt.Sprint([]int{0, sum}) {
			bad("trampoline", "iterates-until-done", fmt.Sprintf("countdown from %d: Trampoline returned (%v, %v) after %d calls (inputs seen %v), want ([0 %d], nil) after %d calls", p.TrampN, res, err, calls, seen, sum, p.TrampN))
		}
		return nil, nil
	})
	// ---- pattern matching -------------------------------------------------------------------------
	sum := fpgo.DefSum(fpgo.DefProduct(reflect.String, reflect.Int), fpgo.NilType)
	type probe struct {
		name string
		v    interface{}
		// which pattern kinds accept it (0 kind-int, 1 sum type, 2 equal(42), 3 regex ^ab+$, 4 kind-string); -1 = not asserted
		acc [9]int
	}
	st := c20T{A: 1}
	st2 := st
	var nilPtr *c20T
	probes := []probe{
		{"int 42", 42, [9]int{1, 0, 1, 0, 0}},
		{"int 7", 7, [9]int{1, 0, 0, 0, 0}},
		{"int64 42", int64(42), [9]int{0, 0, 0, 0, 0}},
		{"string abb", "abb", [9]int{0, 0, 0, 1, 1}},
		{"string xab", "xab", [9]int{0, 0, 0, 0, 1}},
		{"string 42", "42", [9]int{0, 0, 0, 0, 1}},
		{"empty string", "", [9]int{0, 0, 0, 0, 1, 0, 0, 0, 1}},
		{"string aaa", "aaa", [9]int{0, 0, 0, 0, 1, 0, 0, 0, 1}},
		{"nil", nil, [9]int{0, 1, 0, 0, 0}},
		{"typed nil pointer", nilPtr, [9]int{0, -1, 0, 0, 0}},
		{"typed nil *CompData (what NewCompData returns for mismatching arguments)", fpgo.NewCompData(fpgo.DefProduct(reflect.Int), "no"), [9]int{0, -1, 0, 0, 0}},
		{"struct", st, [9]int{0, 0, 0, 0, 0}},
		{"pointer to struct", &st, [9]int{0, 0, 0, 0, 0, 0, 0, 1}},
		{"another pointer to an equal struct", &st2, [9]int{0, 0, 0, 0, 0}},
		{"slice", []int{1, 2}, [9]int{0, 0, 0, 0, 0, 0, 1}},
		{"nil slice", []int(nil), [9]int{0, 0, 0, 0, 0, 0, 1}},
		{"CompData(string,int)", fpgo.NewCompData(sum, "a", 1), [9]int{0, 1, 0, 0, 0}},
		{"CompData(int) of another type", fpgo.NewCompData(fpgo.DefProduct(reflect.Int), 5), [9]int{0, 0, 0, 0, 0}},
	}
	h.Do("main", "pattern-matching", p.Patterns, func() (interface{}, error) {
		// ONE PatternMatching object per pattern list is reused for every probe (as a long-lived matcher would be);
		// Either builds a fresh one per call. The probes are walked in a per-run rotation.
		var shared *fpgo.PatternMatching
		applied := 0 // effects applied by the current call (the patterns of the shared matcher outlive one probe)
		lastKind := -1
		rot := (p.TrampN*7 + p.Arity) % len(probes)
		probes = append(append([]probe{}, probes[rot:]...), probes[:rot]...)
		for _, pr := range probes {
			if cd, isCD := pr.v.(*fpgo.CompData); isCD && cd == nil && !strings.HasPrefix(pr.name, "typed nil") {
				bad("comp-data", "NewCompData-nil-for-matching-arguments", "NewCompData returned nil for arguments that match the declared type: "+pr.name)
				continue
			}
			mk := func(kind int) fpgo.Pattern {
				eff := func(v interface{}) interface{} {
					applied++
					if p.EffPanic && applied == 1 {
						// fault: the user's effect itself fails; that is the caller's panic, not "no pattern accepts"
						panic("effect-boom")
					}
					if p.EffNil {
						lastKind = kind
						return nil // an effect may return nil: that is the result, not "no match"
					}
					return []interface{}{kind, v}
				}
				switch kind {
				case 0:
					return fpgo.InCaseOfKind(reflect.Int, eff)
				case 1:
					return fpgo.InCaseOfSumType(sum, eff)
				case 2:
					return fpgo.InCaseOfEqual(42, eff)
				case 3:
					return fpgo.InCaseOfRegex("^ab+$", eff)
				case 4:
					return fpgo.InCaseOfKind(reflect.String, eff)
				case 5:
					return fpgo.InCaseOfRegex("a(b", eff)
				case 6:
					return fpgo.InCaseOfKind(reflect.Slice, eff)
				case 7:
					return fpgo.InCaseOfEqual(&st, eff)
				case 8:
					return fpgo.InCaseOfRegex("^a*$", eff)
				}
				return fpgo.Otherwise(eff)
			}
			var pats []fpgo.Pattern
			want := -1 // index into kinds of the first accepting pattern; 9 = Otherwise
			undecided := false
			// Otherwise is a pattern like any other: it accepts everything at the position where it stands
			// (usually last; 1 in 3 lists carry it somewhere else)
			kinds := append([]int{}, p.Patterns...)
			if p.Otherwise {
				at := len(kinds)
				if p.OtherwiseAt >= 0 && p.OtherwiseAt < at {
					at = p.OtherwiseAt
				}
				kinds = append(kinds[:at], append([]int{9}, kinds[at:]...)...)
			}
			for _, k := range kinds {
				pats = append(pats, mk(k))
				if want < 0 && !undecided {
					switch {
					case k == 9:
						want = 9
					case pr.acc[k] == 1:
						want = k
					case pr.acc[k] == -1:
						undecided = true
					}
				}
			}
			if undecided {
				continue
			}
			for _, via := range []string{"MatchFor", "Either"} {
				var got interface{}
				var pan interface{}
				applied = 0
				func() {
					defer func() { pan = recover() }()
					if via == "MatchFor" {
						if shared == nil {
							pm := fpgo.DefPattern(pats...)
							shared = &pm
						}
						got = shared.MatchFor(pr.v)
					} else {
						got = fpgo.Either(pr.v, pats...)
					}
				}()
				ctx := fmt.Sprintf("%s of %s against pattern kinds %v (0 kind-int, 1 sum type, 2 equal 42, 3 regex ^ab+$, 4 kind-string, 5 broken regex, 6 kind-slice, 7 equal to one pointer, 8 regex ^a*$) otherwise=%v", via, pr.name, p.Patterns, p.Otherwise)
				if want >= 0 && p.EffPanic {
					if pan != "effect-boom" || applied != 1 {
						bad("pattern-matching", "panic-of-the-matching-effect-not-propagated", fmt.Sprintf("%s, the effect of the first accepting pattern (kind %d) panics: MatchFor returned %v / panicked with %v after applying %d effects; want that panic to reach the caller and no other effect applied", ctx, want, got, pan, applied))
					}
					continue
				}
				if want < 0 {
					if pan == nil {
						bad("pattern-matching", "no-panic-although-no-pattern-accepts", fmt.Sprintf("%s returned %v, want a panic (no pattern accepts)", ctx, got))
					}
					continue
				}
				if pan != nil {
					bad("pattern-matching", "panic-although-a-pattern-accepts", fmt.Sprintf("%s panicked with %v, want the effect of pattern kind %d", ctx, pan, want))
					continue
				}
				if p.EffNil {
					if got != nil || applied != 1 || lastKind != want {
						bad("pattern-matching", "nil-result-of-an-effect", fmt.Sprintf("%s, every effect returns nil: got %v after applying %d effects (last: kind %d), want nil from exactly the effect of kind %d", ctx, got, applied, lastKind, want))
					}
					continue
				}
				r, ok := got.([]interface{})
				if !ok || len(r) != 2 || r[0] != want {
					bad("pattern-matching", "not-first-match", fmt.Sprintf("%s returned %v, want the effect of pattern kind %d (the first in list order that accepts)", ctx, got, want))
					continue
				}
				// the effect is applied to the value itself (a *CompData is handed over as the CompData it points to)
				if _, isCD := pr.v.(*fpgo.CompData); !isCD && reflect.TypeOf(pr.v) != nil && reflect.TypeOf(pr.v).Comparable() && r[1] != pr.v {
					bad("pattern-matching", "effect-applied-to-another-value", fmt.Sprintf("%s: the effect received %v, want the matched value %v", ctx, r[1], pr.v))
				}
			}
		}
		// NewCompData returns a value iff its arguments match the declared sum/product type
		prod := fpgo.DefProduct(reflect.String, reflect.Int)
		// a sum containing a sum, built from a caller-owned slice that the caller keeps
		members := []fpgo.CompType{fpgo.DefSum(fpgo.DefProduct(reflect.Int), fpgo.DefProduct(reflect.String)), fpgo.DefProduct(reflect.Bool), fpgo.DefProduct(reflect.Float64)}
		nested := fpgo.DefSum(members...)
		if !members[0].Matches("s") || members[0].Matches(true) || !members[1].Matches(true) || members[1].Matches(1.5) || !members[2].Matches(1.5) {
			bad("comp-data", "DefSum-modified-the-callers-slice", "after DefSum(members...) the caller's slice of member types no longer holds what the caller put there")
		}
		cases := []struct {
			name string
			t    fpgo.CompType
			args []interface{}
			ok   bool
		}{
			{"product(string,int) <- (a,1)", prod, []interface{}{"a", 1}, true},
			{"product(string,int) <- (1,a)", prod, []interface{}{1, "a"}, false},
			{"product(string,int) <- (a)", prod, []interface{}{"a"}, false},
			{"product(string,int) <- (a,1,2)", prod, []interface{}{"a", 1, 2}, false},
			{"product(string,int) <- (a,1.5)", prod, []interface{}{"a", 1.5}, false},
			{"sum(product(string,int),nil) <- (nil)", sum, []interface{}{nil}, true},
			{"sum(product(string,int),nil) <- (a,1)", sum, []interface{}{"a", 1}, true},
			{"sum(product(string,int),nil) <- (1)", sum, []interface{}{1}, false},
			{"sum(product(string,int),nil) <- (nil,nil)", sum, []interface{}{nil, nil}, false},
			{"sum(sum(int,string),bool,float64) <- (true)", nested, []interface{}{true}, true},
			{"sum(sum(int,string),bool,float64) <- (1)", nested, []interface{}{1}, true},
			{"sum(sum(int,string),bool,float64) <- (s)", nested, []interface{}{"s"}, true},
			{"sum(sum(int,string),bool,float64) <- (1.5)", nested, []interface{}{1.5}, true},
			{"sum(sum(int,string),bool,float64) <- (uint8 1)", nested, []interface{}{uint8(1)}, false},
			{"sum(sum(int,string),bool,float64) <- (1,2)", nested, []interface{}{1, 2}, false},
			{"product(slice) <- (nil slice)", fpgo.DefProduct(reflect.Slice), []interface{}{[]int(nil)}, true},
			{"product(string,map) <- (k, nil map)", fpgo.DefProduct(reflect.String, reflect.Map), []interface{}{"k", map[string]int(nil)}, true},
			{"nil type <- (nil slice)", fpgo.NilType, []interface{}{[]int(nil)}, false},
			{"nil type <- (nil)", fpgo.NilType, []interface{}{nil}, true},
			{"nil type <- (0)", fpgo.NilType, []interface{}{0}, false},
		}
		for _, c := range cases {
			cd := fpgo.NewCompData(c.t, c.args...)
			if (cd != nil) != c.ok {
				bad("comp-data", "NewCompData-iff-arguments-match", fmt.Sprintf("NewCompData %s returned %v, want non-nil=%v", c.name, cd, c.ok))
			}
			if cd != nil && (!fpgo.MatchCompTypeRef(c.t, cd) || !fpgo.MatchCompType(c.t, *cd)) {
				bad("comp-data", "MatchCompType-rejects-own-data", "MatchCompType(Ref) rejects the data NewCompData just built for "+c.name)
			}
		}
		return nil, nil
	})
}
