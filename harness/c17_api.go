package harness

import (
	"bytes"
	"encoding/json"
	"errors"
	"fmt"
	"io"
	"mime"
	"mime/multipart"
	"net/http"
	"net/url"
	"os"
	"path/filepath"
	"sort"
	"strconv"
	"strings"
	"time"

	fpgo "github.com/TeaEntityLab/fpGo/v2"
	"github.com/TeaEntityLab/fpGo/v2/network"
	"verif.local/simrt"
)

// C17 — SimpleAPI sends exactly the request it was defined with, lazily, and decodes it.
// The network is a stub http.RoundTripper (the I/O seam); faults are injected at the
// serializer, the transport, the response body reader and the deserializer.

func init() {
	register(&Property{
		ID:    "C17",
		Files: []string{"network/simpleHTTP.go", "monadIO.go"},
		Funcs: []string{"SimpleAPIDef", "APIMake", "decodeResponseBody", "JSONBody", "GeneralMultipartSerializer", "NewSimpleAPI"},
		Gen:   genC17,
		Rule: "API definitions drawn from the scenario tape: constructor in {Get, Delete, Post/Put/Patch JSON, Post/Put/Patch multipart, generic APIMakeDoNewRequest* with any method} x relative template with 0..4 placeholders x PathParam (missing, extra, multiple keys, printable values) " +
			"x body x DefaultHeader x fault in {none, serializer error, transport error, torn body, empty body, malformed JSON, request body reader failing half-way, deserializer returning (nil, err), missing multipart file}; the returned MonadIO is evaluated 0..3 times via Eval or Subscribe on a handler; " +
			"a reference request builder gives method/URL/header/body; recorded requests == evaluations; failures surface as Err, never as a panic; non-trivial = >=1 evaluation with >=1 placeholder or an injected fault; distinct = distinct (definition, params, fault, evaluations)" +
			" Later additions: FlatMap composition of the API's MonadIO, default header that already names a Content-Type, empty non-nil default header, interceptor refusal as a fault, timeout settings up to MaxInt64, concurrent JSON neighbour.",
		Real:        []string{"network.SimpleAPIDef + APIMake* constructors", "network.SimpleHTTPDef", "net/http.Client", "encoding/json", "mime/multipart", "fpgo.MonadIODef", "fpgo.HandlerDef"},
		Stub:        []string{"http.RoundTripper (the network)", "response body reader (fails once the request context is cancelled, as net/http does)", "serializer / deserializer wrappers (fault injection)", "goroutine scheduler"},
		Assumptions: []string{"multipart bodies are compared as parsed fields/files because Go map iteration randomises the part order", "path parameter values are drawn from characters that are valid unescaped in a URL path"},
	})
}

type c17Scenario struct {
	Ctor        string            `json:"constructor"`
	Method      string            `json:"generic_method,omitempty"`
	Template    string            `json:"template"`
	Params      map[string]string `json:"path_params"`
	Header      map[string]string `json:"default_header,omitempty"`
	EmptyHeader bool              `json:"default_header_empty_non_nil,omitempty"`
	Timeout     int64             `json:"timeout_millisecond_setting,omitempty"`
	BodyKind    string            `json:"body"` // none | obj
	Fault       string            `json:"fault"`
	Evals       int               `json:"evaluations"`
	FaultOnce   bool              `json:"network_fault_hits_the_first_evaluation_only,omitempty"`
	Via         string            `json:"via"` // Eval | Subscribe
	TornAt      int               `json:"torn_at,omitempty"`
	Neighbour   bool              `json:"concurrent_json_neighbour,omitempty"`
	Composed    bool              `json:"evaluated_through_a_FlatMap_composition,omitempty"`
	Pieces      int               `json:"response_body_arrives_in_pieces_of,omitempty"` // bytes per Read (0: all at once); Content-Length announced

	h      *Hist
	probes map[string]int
	extra  []Violation
	hung   bool
}

type c17Body struct {
	Name string `json:"name"`
	N    int    `json:"n"`
}

type c17Resp struct {
	V int    `json:"v"`
	S string `json:"s"`
}

type c17Rec struct {
	method  string
	url     string
	header  http.Header
	body    []byte
	bodyErr bool // the request body could not be read to its end
}

type c17Transport struct {
	sc    *c17Scenario
	recs  []c17Rec
	fault string
	torn  int
}

var errC17Transport = errors.New("injected transport failure")
var errC17Serializer = errors.New("injected serializer failure")
var errC17Deserializer = errors.New("injected deserializer failure")
var errC17Torn = errors.New("injected torn body")
var errC17Interceptor = errors.New("injected interceptor refusal")

type c17TornReader struct {
	data []byte
	pos  int
	at   int
}

func (r *c17TornReader) Read(p []byte) (int, error) {
	if r.pos >= r.at {
		return 0, errC17Torn
	}
	n := copy(p, r.data[r.pos:r.at])
	r.pos += n
	return n, nil
}
func (r *c17TornReader) Close() error { return nil }

func (tr *c17Transport) RoundTrip(req *http.Request) (*http.Response, error) {
	rec := c17Rec{method: req.Method, url: req.URL.String(), header: req.Header.Clone()}
	if req.Body != nil {
		var rerr error
		rec.body, rerr = io.ReadAll(req.Body)
		req.Body.Close()
		if rerr != nil {
			// as net/http does: a request whose body cannot be read to its end fails with that error
			rec.bodyErr = true
			tr.recs = append(tr.recs, rec)
			return nil, rerr
		}
	}
	tr.recs = append(tr.recs, rec)
	// a request must carry its own copy of the default header
	req.Header.Set("X-Mutated-By-Transport", "1")
	if tr.fault == "transport" {
		return nil, errC17Transport
	}
	body := []byte(fmt.Sprintf(`{"v": %d, "s": "resp"}`, len(tr.recs)))
	var rc io.ReadCloser = io.NopCloser(bytes.NewReader(body))
	clen := int64(-1)
	if tr.sc.Pieces > 0 && tr.fault == "none" {
		rc = io.NopCloser(&c17PieceReader{data: body, n: tr.sc.Pieces})
		clen = int64(len(body))
	}
	switch tr.fault {
	case "torn":
		at := tr.torn
		if at > len(body)-1 {
			at = len(body) - 1
		}
		rc = &c17TornReader{data: body, at: at}
	case "read-error-after-body":
		// every byte of a complete document is delivered, then the read fails (connection cut
		// before the announced length): the failure must still surface
		rc = &c17TornReader{data: append(body, ' '), at: len(body)}
	case "empty":
		rc = io.NopCloser(bytes.NewReader(nil))
	case "malformed":
		rc = io.NopCloser(bytes.NewReader([]byte(`{"v": 1, "s": `)))
	case "trailing-data":
		// a complete JSON value followed by something else (a proxy's error page glued on): not a valid response body
		rc = io.NopCloser(bytes.NewReader(append(append([]byte{}, body...), []byte(`<html>502 Bad Gateway</html>`)...)))
	}
	// like net/http's own transport, the body belongs to the request: once the request's context is
	// cancelled (or timed out) the connection is gone and reads fail
	rc = &c17CtxBody{rc: rc, req: req}
	return &http.Response{StatusCode: 200, Status: "200 OK", Proto: "HTTP/1.1", ProtoMajor: 1, ProtoMinor: 1, Header: http.Header{"Content-Type": {"application/json"}}, Body: rc, Request: req, ContentLength: clen}, nil
}

// c17PieceReader hands the body out n bytes per Read call.
type c17PieceReader struct {
	data []byte
	n    int
}

func (r *c17PieceReader) Read(p []byte) (int, error) {
	if len(r.data) == 0 {
		return 0, io.EOF
	}
	k := r.n
	if k > len(r.data) {
		k = len(r.data)
	}
	if k > len(p) {
		k = len(p)
	}
	copy(p, r.data[:k])
	r.data = r.data[k:]
	return k, nil
}

type c17CtxBody struct {
	rc  io.ReadCloser
	req *http.Request
}

func (b *c17CtxBody) Read(p []byte) (int, error) {
	if err := b.req.Context().Err(); err != nil {
		return 0, err
	}
	return b.rc.Read(p)
}
func (b *c17CtxBody) Close() error { return b.rc.Close() }

var c17Keys = []string{"id", "name", "kind", "ver", "user-id", "user.id", "ID", "id2", "k~1"}
var c17Vals = []string{"42", "abc", "x-y_z", "a.b~c", "A+B", "k=v", "t:1", "u@h", "1,2", "0", "true", "7.5", "st-r", "-3", "", "..", "."}

// c17Stringer is a path parameter value that renders itself
type c17Stringer string

func (v c17Stringer) String() string { return string(v) }

func genC17(t *simrt.Tape, tier string) Scenario {
	sc := &c17Scenario{probes: map[string]int{}, Params: map[string]string{}}
	sc.Ctor = []string{"Get", "Delete", "PostJSON", "PutJSON", "PatchJSON", "PostMultipart", "PutMultipart", "PatchMultipart", "GenericNoBody", "GenericJSON", "GenericMultipart"}[t.Choose(11)]
	if strings.HasPrefix(sc.Ctor, "Generic") {
		sc.Method = []string{"GET", "POST", "PUT", "PATCH", "DELETE", "HEAD", "OPTIONS"}[t.Choose(7)]
	}
	np := t.Choose(5)
	segs := []string{"v1"}
	if t.Bool(1, 4) {
		segs = nil // the template may begin with a placeholder (or be a single placeholder)
	}
	used := []string{}
	for i := 0; i < np; i++ {
		k := c17Keys[t.Choose(len(c17Keys))]
		used = append(used, k)
		if t.Bool(1, 2) {
			segs = append(segs, fmt.Sprintf("seg%d", i))
		}
		segs = append(segs, "{"+k+"}")
	}
	if t.Bool(1, 3) {
		segs = append(segs, "tail")
	}
	sc.Template = strings.Join(segs, "/")
	if t.Bool(1, 6) {
		// the template carries a query string, possibly with a placeholder of its own
		k := c17Keys[t.Choose(4)]
		used = append(used, k)
		sc.Template += "?q={" + k + "}&z=1"
	}
	if sc.Template == "" {
		sc.Template = "v1"
	}
	for _, k := range used {
		if !t.Bool(1, 6) { // sometimes a placeholder stays unbound
			sc.Params[k] = c17Vals[t.Choose(len(c17Vals))]
		}
	}
	if t.Bool(1, 4) {
		sc.Params["unused"] = "zzz"
	}
	switch t.ChooseW([]int{3, 3, 1}) {
	case 1:
		sc.Header = map[string]string{"Auth": "token-1"}
		if t.Bool(1, 2) {
			sc.Header["X-Trace"] = "t"
		}
		if t.Bool(1, 3) {
			// the default header already names a content type; the request still carries the declared one
			sc.Header["Content-Type"] = "text/plain"
		}
	case 2:
		sc.Header = map[string]string{} // DefaultHeader is an empty, non-nil map
		sc.EmptyHeader = true
	}
	sc.Timeout = []int64{0, 0, 30000, 1 << 40, 1 << 62, 1<<63 - 1}[t.Choose(6)]
	sc.BodyKind = []string{"obj", "obj", "none", "zero-int", "zero-struct", "empty-string"}[t.ChooseW([]int{4, 4, 3, 1, 1, 1})]
	if sc.BodyKind != "obj" && sc.BodyKind != "none" && !(sc.Ctor == "PostJSON" || sc.Ctor == "PutJSON" || sc.Ctor == "PatchJSON") {
		sc.BodyKind = "obj" // the zero-valued bodies (0, "", a zero struct: values like any other) go through the JSON constructors
	}
	faults := []string{"none", "none", "none", "serializer", "transport", "torn", "empty", "malformed", "deserializer-nil", "missing-file", "read-error-after-body", "interceptor-error", "trailing-data", "request-body-read-error"}
	sc.Fault = faults[t.Choose(len(faults))]
	sc.TornAt = t.Choose(12)
	sc.Evals = []int{1, 0, 2, 3}[t.Choose(4)]
	switch sc.Fault {
	case "transport", "torn", "empty", "malformed", "trailing-data", "read-error-after-body":
		if sc.Evals >= 2 {
			sc.FaultOnce = t.Bool(1, 2)
		}
	}
	if len(sc.Params) >= 2 && sc.Evals >= 1 {
		// the URL is rebuilt on every evaluation; several evaluations make a map-order dependent
		// substitution mistake show up (and replay) reliably
		sc.Evals = 6
	}
	sc.Via = []string{"Eval", "Subscribe"}[t.Choose(2)]
	sc.Neighbour = t.Bool(1, 4)
	sc.Composed = t.Bool(1, 4)
	if t.Bool(1, 3) {
		// ordinary network behaviour, not a fault: the body (of announced length) is delivered a few bytes per Read
		sc.Pieces = 1 + t.Choose(7)
	}
	return sc
}

func (sc *c17Scenario) Describe() interface{} { return sc }
func (sc *c17Scenario) Config() simrt.Config {
	return simrt.Config{Horizon: time.Hour, MaxSteps: 200000, NoStall: true}
}
func (sc *c17Scenario) Probes() map[string]int { return sc.probes }
func (sc *c17Scenario) Nontrivial(res *simrt.Result) bool {
	return sc.Evals >= 1 && (strings.Contains(sc.Template, "{") || sc.Fault != "none")
}
func (sc *c17Scenario) Signature(res *simrt.Result) string {
	b, _ := json.Marshal(sc)
	return string(b)
}

func (sc *c17Scenario) wantMethod() string {
	switch sc.Ctor {
	case "Get":
		return "GET"
	case "Delete":
		return "DELETE"
	case "PostJSON", "PostMultipart":
		return "POST"
	case "PutJSON", "PutMultipart":
		return "PUT"
	case "PatchJSON", "PatchMultipart":
		return "PATCH"
	}
	return sc.Method
}

func (sc *c17Scenario) isJSON() bool {
	return sc.Ctor == "PostJSON" || sc.Ctor == "PutJSON" || sc.Ctor == "PatchJSON" || sc.Ctor == "GenericJSON"
}
func (sc *c17Scenario) isMultipart() bool {
	return strings.HasSuffix(sc.Ctor, "Multipart")
}

var c17DirOnce struct {
	done bool
	dir  string
}

// c17Dir: one scratch directory per worker process holding the upload file (created once:
// per-run file system traffic from 16 processes dominated the run time otherwise).
func c17Dir() string {
	if !c17DirOnce.done {
		d, _ := os.MkdirTemp("", "c17-")
		os.WriteFile(filepath.Join(d, "upload.txt"), []byte("file-content-123"), 0o644)
		c17DirOnce.dir, c17DirOnce.done = d, true
	}
	return c17DirOnce.dir
}

// CleanupScratch removes per-process scratch files (called by the worker at exit).
func CleanupScratch() {
	if c17DirOnce.done {
		os.RemoveAll(c17DirOnce.dir)
	}
}

const c17Base = "http://api.example.test:8080/root"

func (sc *c17Scenario) Run(s *simrt.Sim) {
	h := &Hist{S: s}
	sc.h = h
	add := func(clause, fp, detail string) {
		sc.extra = append(sc.extra, Violation{Clause: clause, Fingerprint: sc.ctorClass() + ":" + fp, Detail: detail})
	}
	tr := &c17Transport{sc: sc, fault: sc.Fault, torn: sc.TornAt}
	sh := network.NewSimpleHTTPWithClientAndInterceptors(&http.Client{Transport: tr})
	api := network.NewSimpleAPIWithSimpleHTTP(c17Base, sh)
	if sc.TornAt%3 == 0 {
		// the plain constructor; its SimpleHTTP gets the stubbed client afterwards
		api = network.NewSimpleAPI(c17Base)
		api.GetSimpleHTTP().SetHTTPClient(&http.Client{Transport: tr})
	}
	// the request timeout is part of the configuration: default, ordinary, or "practically never"
	api.GetSimpleHTTP().TimeoutMillisecond = sc.Timeout
	if sc.Header != nil {
		api.DefaultHeader = http.Header{}
		for k, v := range sc.Header {
			api.DefaultHeader.Set(k, v)
		}
	}
	if sc.Fault == "interceptor-error" {
		// the SimpleHTTP under the API has two interceptors; the first one refuses the request (a transport-level
		// failure as far as the API is concerned): Err on the response, nothing reaches the network
		refuse := network.Interceptor(func(*http.Request) error { return errC17Interceptor })
		pass := network.Interceptor(func(*http.Request) error { return nil })
		api.GetSimpleHTTP().AddInterceptor(&refuse, &pass)
	}
	headerBefore := api.DefaultHeader.Clone()
	var serialized [][]byte
	if sc.Fault == "serializer" {
		api.RequestSerializerForJSON = func(body interface{}) (io.Reader, error) { return nil, errC17Serializer }
		api.RequestSerializerForMultipart = func(body *network.MultipartForm) (io.Reader, string, error) { return nil, "", errC17Serializer }
	}
	if sc.Fault == "request-body-read-error" {
		// the serializer hands out a streaming reader that breaks half-way (a pipe whose writer failed, a file on a bad disk)
		origJ, origM := api.RequestSerializerForJSON, api.RequestSerializerForMultipart
		api.RequestSerializerForJSON = func(body interface{}) (io.Reader, error) {
			r, err := origJ(body)
			if err != nil || r == nil {
				return r, err
			}
			data, _ := io.ReadAll(r)
			return &c17TornReader{data: data, at: len(data) / 2}, nil
		}
		api.RequestSerializerForMultipart = func(body *network.MultipartForm) (io.Reader, string, error) {
			r, ct, err := origM(body)
			if err != nil || r == nil {
				return r, ct, err
			}
			data, _ := io.ReadAll(r)
			return &c17TornReader{data: data, at: len(data) / 2}, ct, nil
		}
	}
	// (otherwise the library's own serializers are used untouched: the request body the transport reads
	// must be what the serializer produced for THIS evaluation, also when another JSON request is being
	// prepared at the same time, see the concurrent neighbour below)
	if sc.Fault == "deserializer-nil" {
		api.ResponseDeserializer = func(body []byte, target interface{}) (interface{}, error) { return nil, errC17Deserializer }
	}
	params := network.PathParam{}
	for k, v := range sc.Params {
		params[k] = v
		if n, err := strconv.Atoi(v); err == nil {
			params[k] = n // non-string values are rendered with %v
		}
		switch v {
		case "true":
			params[k] = true
		case "7.5":
			params[k] = 7.5
		case "st-r":
			params[k] = c17Stringer(v)
		case "-3":
			params[k] = int64(-3)
		}
	}
	if len(sc.Params) == 0 && sc.TornAt%2 == 0 {
		params = nil
	}
	// files for multipart bodies live in a scratch directory of this run
	dir := c17Dir()
	filePath := filepath.Join(dir, "upload.txt")
	if sc.Fault == "missing-file" {
		filePath = filepath.Join(dir, "does-not-exist.txt")
	}
	var form *network.MultipartForm
	var jsonBody *c17Body
	if sc.BodyKind == "obj" {
		jsonBody = &c17Body{Name: "n1", N: 7}
		// both fields carry the same number of values: the statement sequence of the serializer must not depend on Go's map order
		form = &network.MultipartForm{Value: map[string][]string{"f1": {"v1a", "v1b"}, "f2": {"v2a", "v2b"}}, File: map[string][]string{"up": {filePath}}}
	}
	target := &c17Resp{}
	var io_ *fpgo.MonadIODef[*network.APIResponse[c17Resp]]
	buildOp := h.Do("main", "build-api", sc.Ctor, func() (interface{}, error) {
		switch sc.Ctor {
		case "Get":
			io_ = network.APIMakeGet[c17Resp](api, sc.Template)(params, target)
		case "Delete":
			io_ = network.APIMakeDelete[c17Resp](api, sc.Template)(params, target)
		case "GenericNoBody":
			io_ = network.APIMakeDoNewRequest[c17Resp](api, sc.Method, sc.Template)(params, target)
		case "PostJSON":
			switch sc.BodyKind {
			case "zero-int":
				io_ = network.APIMakePostJSONBody[int, c17Resp](api, sc.Template)(params, 0, target)
			case "zero-struct":
				io_ = network.APIMakePostJSONBody[c17Body, c17Resp](api, sc.Template)(params, c17Body{}, target)
			case "empty-string":
				io_ = network.APIMakePostJSONBody[string, c17Resp](api, sc.Template)(params, "", target)
			default:
				io_ = network.APIMakePostJSONBody[*c17Body, c17Resp](api, sc.Template)(params, jsonBody, target)
			}
		case "PutJSON":
			switch sc.BodyKind {
			case "zero-int":
				io_ = network.APIMakePutJSONBody[int, c17Resp](api, sc.Template)(params, 0, target)
			case "zero-struct":
				io_ = network.APIMakePutJSONBody[c17Body, c17Resp](api, sc.Template)(params, c17Body{}, target)
			case "empty-string":
				io_ = network.APIMakePutJSONBody[string, c17Resp](api, sc.Template)(params, "", target)
			default:
				io_ = network.APIMakePutJSONBody[*c17Body, c17Resp](api, sc.Template)(params, jsonBody, target)
			}
		case "PatchJSON":
			switch sc.BodyKind {
			case "zero-int":
				io_ = network.APIMakePatchJSONBody[int, c17Resp](api, sc.Template)(params, 0, target)
			case "zero-struct":
				io_ = network.APIMakePatchJSONBody[c17Body, c17Resp](api, sc.Template)(params, c17Body{}, target)
			case "empty-string":
				io_ = network.APIMakePatchJSONBody[string, c17Resp](api, sc.Template)(params, "", target)
			default:
				io_ = network.APIMakePatchJSONBody[*c17Body, c17Resp](api, sc.Template)(params, jsonBody, target)
			}
		case "GenericJSON":
			io_ = network.APIMakeDoNewRequestWithBodySerializer[*c17Body, c17Resp](api, sc.Method, sc.Template, "application/json", api.RequestSerializerForJSON)(params, jsonBody, target)
		case "PostMultipart":
			io_ = network.APIMakePostMultipartBody[c17Resp](api, sc.Template)(params, form, target)
		case "PutMultipart":
			io_ = network.APIMakePutMultipartBody[c17Resp](api, sc.Template)(params, form, target)
		case "PatchMultipart":
			io_ = network.APIMakePatchMultipartBody[c17Resp](api, sc.Template)(params, form, target)
		case "GenericMultipart":
			io_ = network.APIMakeDoNewRequestWithMultipartSerializer[c17Resp](api, sc.Method, sc.Template, api.RequestSerializerForMultipart)(params, form, target)
		}
		return nil, nil
	})
	if buildOp.Panic != "" || io_ == nil {
		return
	}
	if len(tr.recs) != 0 {
		add("lazy", "request-sent-at-definition", fmt.Sprintf("%d requests were sent before the MonadIO was evaluated", len(tr.recs)))
	}
	// a neighbour: another goroutine evaluating an unrelated JSON API (own SimpleHTTP, own transport) at the
	// same time; both share nothing but the package-level serializer
	var neighbour *simrt.Thread
	if sc.Neighbour {
		ntr := &c17Transport{sc: sc}
		napi := network.NewSimpleAPIWithSimpleHTTP("http://neighbour.example.test", network.NewSimpleHTTPWithClientAndInterceptors(&http.Client{Transport: ntr}))
		nbody := &c17Body{Name: "n2", N: 9}
		neighbour = s.Go("neighbour", func() {
			for i := 0; i < 3; i++ {
				before := len(ntr.recs)
				op := h.Do("neighbour", "Eval", i, func() (interface{}, error) {
					network.APIMakePostJSONBody[*c17Body, c17Resp](napi, "n")(nil, nbody, &c17Resp{}).Eval()
					return nil, nil
				})
				if op.Panic == "" && len(ntr.recs) == before+1 {
					want, _ := json.Marshal(nbody)
					if !bytes.Equal(ntr.recs[before].body, want) {
						add("body", "neighbour-json-body-differs", fmt.Sprintf("a concurrent JSON request sent body %q, its serializer output is %q", ntr.recs[before].body, want))
					}
				}
				s.Yield()
			}
		})
	}
	defer func() {
		if neighbour != nil {
			s.WaitUntilTimeout(neighbour.Done, time.Minute)
		}
	}()
	if sc.Composed {
		// the API's MonadIO is used as the source of a composition: still nothing is sent until the composition
		// is evaluated, and every evaluation of the composition issues the request once
		src := io_
		flat := 0
		h.Do("main", "compose", nil, func() (interface{}, error) {
			io_ = src.FlatMap(func(r *network.APIResponse[c17Resp]) *fpgo.MonadIODef[*network.APIResponse[c17Resp]] {
				flat++
				return fpgo.MonadIOJustGenerics(r)
			})
			return nil, nil
		})
		if len(tr.recs) != 0 || flat != 0 {
			add("lazy", "request-sent-at-composition", fmt.Sprintf("%d requests were sent (continuation ran %d times) when the API's MonadIO was composed with FlatMap, before any evaluation", len(tr.recs), flat))
		}
		sc.probes["api-monad-composed"]++
	}
	var hd *fpgo.HandlerDef
	if sc.Via == "Subscribe" {
		hd = fpgo.Handler.New()
		io_.ObserveOn(hd)
	}
	for i := 0; i < sc.Evals; i++ {
		tf := sc.Fault
		if sc.FaultOnce && i >= 1 {
			// the network fault hit the first evaluation only: the later ones are healthy calls and must succeed
			tf = "none"
			tr.fault = "none"
		}
		before := len(tr.recs)
		var resp *network.APIResponse[c17Resp]
		var op *Op
		if sc.Via == "Eval" {
			op = h.Do("main", "Eval", i, func() (interface{}, error) { resp = io_.Eval(); return nil, nil })
		} else {
			got := false
			op = h.Do("main", "Subscribe", i, func() (interface{}, error) {
				io_.Subscribe(fpgo.Subscription[*network.APIResponse[c17Resp]]{OnNext: func(r *network.APIResponse[c17Resp]) { resp = r; got = true }})
				return nil, nil
			})
			if !s.WaitUntilTimeout(func() bool { return got }, 5*time.Minute) {
				// the effect died on the handler goroutine (reported as goroutine panic) or hangs
				sc.hung = true
				return
			}
		}
		if op.Panic != "" {
			return
		}
		sent := len(tr.recs) - before
		wantSent := 1
		if sc.Fault == "serializer" && sc.BodyKind != "none" && (sc.isJSON() || sc.isMultipart()) {
			wantSent = 0
		}
		if sc.Fault == "missing-file" && sc.BodyKind == "obj" && sc.isMultipart() {
			wantSent = 0
		}
		if sc.Fault == "interceptor-error" {
			wantSent = 0
		}
		if sent != wantSent {
			add("one-request-per-evaluation", fmt.Sprintf("sent-%d-want-%d", min3(sent), wantSent), fmt.Sprintf("evaluation %d issued %d requests, want %d", i, sent, wantSent))
		}
		if resp == nil {
			add("response", "nil-response", fmt.Sprintf("evaluation %d returned a nil *APIResponse", i))
			continue
		}
		bodyFault := sc.Fault == "request-body-read-error" && sc.BodyKind != "none" && (sc.isJSON() || sc.isMultipart())
		failing := wantSent == 0 || bodyFault || tf == "transport" || tf == "torn" || tf == "empty" || tf == "malformed" || tf == "trailing-data" || sc.Fault == "deserializer-nil" || tf == "read-error-after-body"
		if failing {
			sc.probes["fault-"+sc.Fault]++
			s.Fault(sc.Fault)
			if resp.Err == nil {
				add("failure-surfaces-as-Err", "fault-"+sc.Fault+"-but-nil-Err", fmt.Sprintf("evaluation %d: injected fault %q but APIResponse.Err is nil", i, sc.Fault))
			}
		} else {
			if resp.Err != nil {
				add("response", "unexpected-Err", fmt.Sprintf("evaluation %d: no fault injected but Err=%v", i, resp.Err))
			} else {
				if resp.TargetObject != target {
					add("response", "target-not-returned", "TargetObject is not the supplied target")
				}
				if target.V != len(tr.recs) || target.S != "resp" {
					add("response", "not-decoded-into-target", fmt.Sprintf("evaluation %d: target=%+v, the response body was {v:%d,s:resp}", i, *target, len(tr.recs)))
				}
			}
		}
		if sent == 1 {
			sc.checkRequest(tr.recs[len(tr.recs)-1], serialized, add)
		}
	}
	if sc.isMultipart() && sc.BodyKind == "obj" && sc.Fault == "none" && sc.Evals >= 1 && !sc.hung {
		// the same MonadIO evaluated twice AT THE SAME TIME (two subscribers on two handlers): every evaluation still
		// issues its own, complete request
		h1, h2 := fpgo.Handler.New(), fpgo.Handler.New()
		before := len(tr.recs)
		done := 0
		on := fpgo.Subscription[*network.APIResponse[c17Resp]]{OnNext: func(r *network.APIResponse[c17Resp]) {
			if r == nil || r.Err != nil {
				add("response", "concurrent-evaluation-failed", fmt.Sprintf("one of two simultaneous evaluations of the same MonadIO failed: %+v", r))
			}
			done++
		}}
		h.Do("main", "Subscribe x2 on two handlers", nil, func() (interface{}, error) {
			io_.ObserveOn(h1).Subscribe(on)
			io_.ObserveOn(h2).Subscribe(on)
			return nil, nil
		})
		if !s.WaitUntilTimeout(func() bool { return done == 2 }, 5*time.Minute) {
			add("hang", "concurrent-evaluations-did-not-finish", fmt.Sprintf("two simultaneous evaluations of the same MonadIO: %d finished", done))
		} else if n := len(tr.recs) - before; n != 2 {
			add("one-request-per-evaluation", "concurrent-evaluations", fmt.Sprintf("two simultaneous evaluations issued %d requests", n))
		} else {
			for _, rec := range tr.recs[before:] {
				sc.checkRequest(rec, serialized, add)
			}
		}
		h1.Close()
		h2.Close()
		sc.probes["two-simultaneous-evaluations-of-one-multipart-call"]++
	}
	if fmt.Sprint(headerBefore) != fmt.Sprint(api.DefaultHeader) {
		add("header-copy", "DefaultHeader-mutated", fmt.Sprintf("DefaultHeader changed from %v to %v (requests must carry a copy)", headerBefore, api.DefaultHeader))
	}
}

func (sc *c17Scenario) ctorClass() string {
	return sc.Ctor
}

func (sc *c17Scenario) checkRequest(rec c17Rec, serialized [][]byte, add func(clause, fp, detail string)) {
	if want := sc.wantMethod(); rec.method != want {
		add("method", "sent-"+rec.method+"-want-"+want, fmt.Sprintf("the %s constructor sent %s, want %s", sc.Ctor, rec.method, want))
	}
	// URL: BaseURL + "/" + template with every supplied {key} replaced
	final := sc.Template
	nrep := 0
	for k, v := range sc.Params {
		if strings.Contains(final, "{"+k+"}") {
			nrep++
		}
		final = strings.ReplaceAll(final, "{"+k+"}", v)
	}
	wantURL := c17Base + "/" + final
	if u, err := url.Parse(wantURL); err == nil {
		wantURL = u.String()
	}
	if rec.url != wantURL {
		add("url", fmt.Sprintf("wrong-url-with-%d-supplied-placeholders", min3(nrep)), fmt.Sprintf("sent to %s, want %s (template %q, params %v)", rec.url, wantURL, sc.Template, sc.Params))
	}
	if nrep >= 2 {
		sc.probes["two-or-more-placeholders-substituted"]++
	}
	// header = copy of DefaultHeader + declared Content-Type
	for k, v := range sc.Header {
		if k == "Content-Type" {
			continue // the declared type may legitimately take the default's place
		}
		if rec.header.Get(k) != v {
			add("header", "default-header-missing", fmt.Sprintf("request header %v lacks default header %s=%s", rec.header, k, v))
		}
	}
	maxCT := 1
	if sc.Header["Content-Type"] != "" {
		maxCT = 2
		sc.probes["default-header-has-content-type"]++
	}
	if n := len(rec.header.Values("Content-Type")); n > maxCT {
		add("header", "content-type-repeated", fmt.Sprintf("the request carries %d Content-Type values: %v", n, rec.header.Values("Content-Type")))
	}
	ct := rec.header.Get("Content-Type")
	if sc.Header["Content-Type"] != "" {
		// default's and declared type are both present; pick the declared one
		for _, v := range rec.header.Values("Content-Type") {
			if v != sc.Header["Content-Type"] {
				ct = v
			}
		}
	}
	if rec.bodyErr {
		return // (the body was cut short by the injected read error: nothing to compare)
	}
	switch {
	case sc.isJSON():
		if ct != "application/json" {
			add("header", "content-type-json", fmt.Sprintf("Content-Type %q, want application/json", ct))
		}
		if sc.BodyKind == "obj" {
			want, _ := json.Marshal(&c17Body{Name: "n1", N: 7})
			if !bytes.Equal(rec.body, want) {
				add("body", "json-body-differs", fmt.Sprintf("sent body %q, the serializer's output is %q", rec.body, want))
			}
		} else if sc.BodyKind != "none" {
			var v interface{} = 0
			switch sc.BodyKind {
			case "zero-struct":
				v = c17Body{}
			case "empty-string":
				v = ""
			}
			want, _ := json.Marshal(v)
			sc.probes["zero-valued-body"]++
			if !bytes.Equal(rec.body, want) {
				add("body", "zero-valued-json-body-differs", fmt.Sprintf("body %s: sent %q, the serializer's output for that value is %q", sc.BodyKind, rec.body, want))
			}
		} else if len(rec.body) != 0 {
			add("body", "body-without-body", fmt.Sprintf("sent body %q although the body is nil", rec.body))
		}
	case sc.isMultipart():
		if sc.BodyKind == "obj" {
			mt, prm, err := mime.ParseMediaType(ct)
			if err != nil || mt != "multipart/form-data" {
				add("header", "content-type-multipart", fmt.Sprintf("Content-Type %q, want multipart/form-data with a boundary", ct))
				return
			}
			mr := multipart.NewReader(bytes.NewReader(rec.body), prm["boundary"])
			form, err := mr.ReadForm(1 << 20)
			if err != nil {
				add("body", "multipart-unparsable", fmt.Sprintf("multipart body does not parse: %v", err))
				return
			}
			got := map[string][]string{}
			for k, v := range form.Value {
				vv := append([]string{}, v...)
				sort.Strings(vv)
				got[k] = vv
			}
			if fmt.Sprint(got) != fmt.Sprint(map[string][]string{"f1": {"v1a", "v1b"}, "f2": {"v2a", "v2b"}}) {
				add("body", "multipart-fields-differ", fmt.Sprintf("multipart fields %v", got))
			}
			fhs := form.File["up"]
			if len(fhs) != 1 || fhs[0].Filename != "upload.txt" {
				add("body", "multipart-file-differs", fmt.Sprintf("multipart files %v", form.File))
			} else if f, err := fhs[0].Open(); err == nil {
				b, _ := io.ReadAll(f)
				f.Close()
				if string(b) != "file-content-123" {
					add("body", "multipart-file-content", fmt.Sprintf("uploaded file content %q", b))
				}
			}
		}
	default:
		if len(rec.body) != 0 {
			add("body", "body-on-bodyless-request", fmt.Sprintf("sent body %q", rec.body))
		}
	}
}

func (sc *c17Scenario) Check(res *simrt.Result) []Violation {
	var vs []Violation
	for _, v := range goroutinePanics(res) {
		v.Fingerprint = sc.ctorFault() + ":" + v.Fingerprint
		vs = append(vs, v)
	}
	if sc.h == nil {
		return vs
	}
	for _, v := range opPanics(sc.h) {
		v.Fingerprint = sc.ctorFault() + ":" + v.Fingerprint
		vs = append(vs, v)
	}
	vs = append(vs, sc.extra...)
	if (res.Reason != "done" || sc.hung) && len(vs) == 0 {
		vs = append(vs, Violation{Clause: "hang", Fingerprint: sc.Ctor + ":evaluation-did-not-finish", Detail: "reason " + res.Reason + "; pending: " + pendingOps(sc.h)})
	}
	return dedupe(vs)
}

func (sc *c17Scenario) ctorFault() string {
	return "fault=" + sc.Fault
}
