package harness

import (
	"bytes"
	"context"
	"encoding/json"
	"errors"
	"fmt"
	"io"
	"net/http"
	"strings"
	"syscall"
	"time"

	"github.com/TeaEntityLab/fpGo/v2/network"
	"verif.local/simrt"
)

// C18 — Interceptors run once each, in order, before the transport; an error aborts.
// Sequential: the simulation contributes the transport seam, fault positions (every position
// of a failing interceptor is enumerated per request), replay and shrinking.

func init() {
	register(&Property{
		ID:    "C18",
		Files: []string{"network/simpleHTTP.go"},
		Funcs: []string{"SimpleHTTPDef", "NewSimpleHTTP"},
		Gen:   genC18,
		Rule: "histories over {AddInterceptor(i...), RemoveInterceptor(i...), ClearInterceptor, SetHTTPClient(c_k), request of verb in {Get, Head, Options, Delete, Post, Put, Patch, via SimpleAPI}} with 0..6 interceptor objects (duplicates allowed) " +
			"and 1..3 clients (one with a nil Transport: http.DefaultTransport is swapped for the stub during the run); at every request point the request is issued once without a fault and once per position of a failing interceptor (enumerated); " +
			"oracle: list model of registrations; per request the call log is the model list in order, each once, then the transport once; interceptor header changes reach the transport; a failing interceptor aborts the rest and its error surfaces; " +
			"no chain re-entrancy; non-trivial = a request with >=2 registered interceptors; distinct = distinct (history, fault position) pairs" +
			" Later additions: redirect hop and network failure (plain/EOF/ECONNRESET) at every request point, cancelled request contexts, a panicking interceptor followed by a normal request, an interceptor unregistering a later one during a request, two concurrent requests per history, caller-owned slices overwritten after Add/Remove, twin instances, surplus-header oracle.",
		Real: []string{"network.SimpleHTTPDef (Add/Remove/ClearInterceptor, SetHTTPClient, RoundTrip/recursiveVisit, verbs)", "network.SimpleAPIDef", "fpgo.StreamDef (interceptor list)", "net/http.Client"},
		Stub: []string{"http.RoundTripper (the network)", "interceptor functions (logging, header setting, fault injection)"},
	})
}

type c18Step struct {
	Kind string `json:"op"` // Add | Remove | Clear | SetClient | Request
	Ics  []int  `json:"interceptors,omitempty"`
	Cli  int    `json:"client,omitempty"`
	Verb string `json:"verb,omitempty"`
	Inst int    `json:"instance,omitempty"`
}

type c18Scenario struct {
	NIcs    int       `json:"interceptor_objects"`
	NCli    int       `json:"clients"`
	NilTr   bool      `json:"client0_has_nil_transport"`
	ErrKind string    `json:"injected_error_kind,omitempty"` // plain | eof | unexpected-eof | connreset
	Initial []int     `json:"initial_interceptors"`
	Twin    bool      `json:"two_instances_from_one_slice"`
	DefTwin bool      `json:"two_default_constructed_instances"`
	APIHdr  bool      `json:"api_has_default_header,omitempty"`
	ShareTr bool      `json:"clients_share_one_transport_object,omitempty"`
	Steps   []c18Step `json:"steps"`

	h      *Hist
	probes map[string]int
	extra  []Violation
	pairs  int
}

func genC18(t *simrt.Tape, tier string) Scenario {
	sc := &c18Scenario{probes: map[string]int{}}
	sc.NIcs = t.Choose(7)
	sc.NCli = 1 + t.Choose(3)
	sc.NilTr = t.Bool(1, 4)
	sc.ErrKind = []string{"plain", "eof", "unexpected-eof", "connreset", "timeout"}[t.ChooseW([]int{3, 1, 1, 1, 1})]
	pick := func() []int {
		if sc.NIcs == 0 {
			return nil
		}
		n := 1 + t.Choose(3)
		var out []int
		for i := 0; i < n; i++ {
			out = append(out, t.Choose(sc.NIcs))
		}
		return out
	}
	if t.Bool(1, 2) {
		sc.Initial = pick()
	}
	// two SimpleHTTP objects constructed from the same interceptor slice (with spare capacity): what one
	// instance registers must never show up in the other
	sc.Twin = t.Bool(1, 4)
	sc.APIHdr = t.Bool(1, 2)
	// different http.Client objects built on ONE transport object (a shared connection pool): handing a new client
	// over still puts the chain in front of it
	sc.ShareTr = sc.NCli >= 2 && t.Bool(1, 3)
	if sc.Twin && t.Bool(1, 3) {
		// both objects come from NewSimpleHTTP() (own http.Client each, default transport = the stub)
		sc.DefTwin = true
		sc.Initial = nil
		sc.NilTr = true
	}
	maxSteps := 8
	if tier == "thorough" {
		maxSteps = 14
	}
	n := 1 + t.Choose(maxSteps)
	// (the two Ctx verbs: DoNewRequest with a caller-supplied context that is already cancelled, resp. gets cancelled
	// while the first interceptor runs - the deadline of the caller passing mid-chain; only an interceptor's error aborts the chain)
	verbs := []string{"Get", "Head", "Options", "Delete", "Post", "Put", "Patch", "API", "APIDelete", "APIPost", "CtxCancelled", "CtxCancelledMidChain"}
	for i := 0; i < n; i++ {
		switch t.ChooseW([]int{4, 2, 1, 2, 6, 1, 1, 1}) {
		case 7:
			// the user decorates the transport of the client the SimpleHTTP currently uses (a logging/metrics wrapper
			// around whatever transport is installed) without telling the SimpleHTTP
			sc.Steps = append(sc.Steps, c18Step{Kind: "Decorate"})
		case 6:
			// a request during which one interceptor unregisters another one that comes later in the chain
			// (a one-shot "login" interceptor retired by the "auth" interceptor, say)
			if sc.NIcs >= 2 {
				sc.Steps = append(sc.Steps, c18Step{Kind: "RequestRemoving", Ics: []int{t.Choose(sc.NIcs), t.Choose(sc.NIcs)}, Verb: "Get"})
			}
		case 5:
			// the user swaps the transport of a client and hands the client over again
			sc.Steps = append(sc.Steps, c18Step{Kind: "SwapTransport", Cli: t.Choose(sc.NCli)})
		case 0:
			sc.Steps = append(sc.Steps, c18Step{Kind: "Add", Ics: pick()})
		case 1:
			sc.Steps = append(sc.Steps, c18Step{Kind: "Remove", Ics: pick()})
		case 2:
			sc.Steps = append(sc.Steps, c18Step{Kind: "Clear"})
		case 3:
			sc.Steps = append(sc.Steps, c18Step{Kind: "SetClient", Cli: t.Choose(sc.NCli)})
		case 4:
			sc.Steps = append(sc.Steps, c18Step{Kind: "Request", Verb: verbs[t.Choose(len(verbs))]})
		}
	}
	sc.Steps = append(sc.Steps, c18Step{Kind: "Request", Verb: verbs[t.Choose(len(verbs))]})
	if t.Bool(1, 4) {
		// one caller-owned *http.Request sent several times in a row through DoRequest: every send is a request
		for k := 2 + t.Choose(2); k > 0; k-- {
			sc.Steps = append(sc.Steps, c18Step{Kind: "Request", Verb: "DoRequestReused"})
		}
	}
	if sc.Twin {
		for i := range sc.Steps {
			switch sc.Steps[i].Kind {
			case "Add", "Remove", "Clear", "Request", "RequestRemoving":
				sc.Steps[i].Inst = t.Choose(2)
			}
		}
		sc.Steps = append(sc.Steps, c18Step{Kind: "Request", Verb: "Get", Inst: 0}, c18Step{Kind: "Request", Verb: "Post", Inst: 1})
	}
	return sc
}

func (sc *c18Scenario) Describe() interface{} { return sc }
func (sc *c18Scenario) Config() simrt.Config {
	return simrt.Config{Horizon: time.Hour, MaxSteps: 200000, NoStall: true}
}
func (sc *c18Scenario) Probes() map[string]int { return sc.probes }
func (sc *c18Scenario) Nontrivial(res *simrt.Result) bool {
	return sc.probes["request-with-2+-interceptors"] > 0
}
func (sc *c18Scenario) Signature(res *simrt.Result) string {
	b, _ := json.Marshal(sc)
	return string(b)
}

// c18Decorator is a user's pass-through wrapper around whatever transport a client had; it refuses to be part of a cycle
type c18Decorator struct {
	next   http.RoundTripper
	rounds *int
}

func (d *c18Decorator) RoundTrip(req *http.Request) (*http.Response, error) {
	*d.rounds++
	if *d.rounds > 30 {
		panic("c18: one request passed the same decorated transport more than 30 times (a cycle)")
	}
	return d.next.RoundTrip(req)
}

type c18Stub struct {
	id     int
	log    *[]string
	depth  *int
	seen   *http.Header
	fail   *error // non-nil target: the network fails with it (as long as it is set)
	redir  *int   // > 0: answer with a redirect (and count down)
	tagged *[]string
}

func (st *c18Stub) RoundTrip(req *http.Request) (*http.Response, error) {
	*st.log = append(*st.log, fmt.Sprintf("transport%d", st.id))
	if q := req.URL.RawQuery; q != "" && st.tagged != nil {
		*st.tagged = append(*st.tagged, q+":transport")
	}
	*st.seen = req.Header.Clone()
	if req.Body != nil {
		io.Copy(io.Discard, req.Body)
		req.Body.Close()
	}
	if st.fail != nil && *st.fail != nil {
		return nil, *st.fail
	}
	if st.redir != nil && *st.redir > 0 {
		*st.redir--
		return &http.Response{StatusCode: 307, Status: "307 Temporary Redirect", Proto: "HTTP/1.1", ProtoMajor: 1, ProtoMinor: 1,
			Header: http.Header{"Location": {"/moved"}}, Body: io.NopCloser(bytes.NewReader(nil)), Request: req}, nil
	}
	return &http.Response{StatusCode: 200, Status: "200 OK", Proto: "HTTP/1.1", ProtoMajor: 1, ProtoMinor: 1, Header: http.Header{}, Body: io.NopCloser(bytes.NewReader([]byte(`{"v":1}`))), Request: req}, nil
}

func (sc *c18Scenario) Run(s *simrt.Sim) {
	h := &Hist{S: s}
	sc.h = h
	var log []string
	var seen http.Header
	depth := 0
	failAt := -1 // index into the call sequence of this request at which the interceptor fails
	var netErr error
	redirects := 0
	calls := 0
	panicAtCall := -1
	duringRemove := map[int]int{} // interceptor object -> the object it unregisters when it is invoked next (one-shot)
	var removeVia func(target int)
	var tagged []string // "<raw query>:<entry>" for requests that carry a query (concurrent phase)
	var cancelMid func()
	errs := make([]error, sc.NIcs)
	ics := make([]*network.Interceptor, sc.NIcs)
	for i := range ics {
		i := i
		errs[i] = fmt.Errorf("interceptor %d refused", i)
		if sc.ErrKind == "timeout" {
			// an error value that itself says Timeout() (a token refresh that timed out, say): still the interceptor's error
			errs[i] = c18TimeoutErr{msg: fmt.Sprintf("interceptor %d: token refresh timed out", i)}
		} else if w := c18ErrOfKind(sc.ErrKind); w != nil {
			errs[i] = fmt.Errorf("interceptor %d refused: %w", i, w)
		}
		f := network.Interceptor(func(req *http.Request) error {
			depth++
			defer func() { depth-- }()
			if depth > 40 {
				panic("interceptor chain recursion")
			}
			log = append(log, fmt.Sprintf("ic%d", i))
			if q := req.URL.RawQuery; q != "" {
				tagged = append(tagged, fmt.Sprintf("%s:ic%d", q, i))
				s.Yield() // lets a concurrent request of another goroutine interleave with this chain
			}
			req.Header.Add(fmt.Sprintf("X-Ic-%d", i), "set")
			my := calls
			calls++
			if my == 0 && cancelMid != nil {
				cancelMid()
			}
			if my == panicAtCall {
				panic("interceptor-boom")
			}
			if tgt, ok := duringRemove[i]; ok {
				delete(duringRemove, i)
				removeVia(tgt)
			}
			if my == failAt {
				return errs[i]
			}
			return nil
		})
		ics[i] = &f
	}
	// an interceptor that is never registered: the caller writes it over the slices it passed to Add/Remove afterwards
	decoyF := network.Interceptor(func(req *http.Request) error {
		log = append(log, "decoy-never-registered")
		return nil
	})
	decoy := &decoyF
	// clients: client 0 may have a nil Transport (then http.DefaultTransport is the stub for this run)
	clients := make([]*http.Client, sc.NCli)
	for k := range clients {
		clients[k] = &http.Client{Transport: &c18Stub{id: k, log: &log, depth: &depth, seen: &seen, fail: &netErr, redir: &redirects, tagged: &tagged}}
	}
	if sc.ShareTr {
		for k := 1; k < len(clients); k++ {
			clients[k] = &http.Client{Transport: clients[0].Transport}
		}
		sc.probes["clients-sharing-one-transport"]++
	}
	if sc.NilTr {
		saved := http.DefaultTransport
		http.DefaultTransport = &c18Stub{id: 0, log: &log, depth: &depth, seen: &seen, fail: &netErr, redir: &redirects, tagged: &tagged}
		defer func() { http.DefaultTransport = saved }()
		clients[0] = &http.Client{}
	}
	initial := make([]*network.Interceptor, 0, len(sc.Initial)+4) // spare capacity on purpose
	var model []int
	for _, i := range sc.Initial {
		initial = append(initial, ics[i])
		model = append(model, i)
	}
	sh := network.NewSimpleHTTPWithClientAndInterceptors(clients[0], initial...)
	if len(sc.Initial) == 0 && !sc.Twin && sc.NIcs%2 == 0 {
		// the plain constructor: own http.Client, handed the first client afterwards
		sh = network.NewSimpleHTTP()
		if sh.GetHTTPClient() == nil {
			sc.extra = append(sc.extra, Violation{Clause: "api-smoke", Fingerprint: "NewSimpleHTTP-without-client", Detail: "NewSimpleHTTP().GetHTTPClient() is nil"})
		}
		sh.SetHTTPClient(clients[0])
	}
	if sh.GetHTTPClient() != clients[0] {
		sc.extra = append(sc.extra, Violation{Clause: "api-smoke", Fingerprint: "GetHTTPClient", Detail: "GetHTTPClient() is not the client that was set"})
	}
	api := network.NewSimpleAPIWithSimpleHTTP("http://c18.example.test", sh)
	shs := []*network.SimpleHTTPDef{sh}
	apis := []*network.SimpleAPIDef{api}
	models := [][]int{model}
	if sc.DefTwin {
		// replace both objects by default-constructed ones; SetClient steps are ignored below
		sh = network.NewSimpleHTTP()
		api = network.NewSimpleAPIWithSimpleHTTP("http://c18.example.test", sh)
		shs, apis = []*network.SimpleHTTPDef{sh}, []*network.SimpleAPIDef{api}
		sh2 := network.NewSimpleHTTP()
		shs = append(shs, sh2)
		apis = append(apis, network.NewSimpleAPIWithSimpleHTTP("http://c18.example.test", sh2))
		models = append(models, nil)
	} else if sc.Twin {
		twinClient := &http.Client{Transport: &c18Stub{id: 50, log: &log, depth: &depth, seen: &seen, fail: &netErr, redir: &redirects, tagged: &tagged}}
		sh2 := network.NewSimpleHTTPWithClientAndInterceptors(twinClient, initial...)
		shs = append(shs, sh2)
		apis = append(apis, network.NewSimpleAPIWithSimpleHTTP("http://c18.example.test", sh2))
		models = append(models, append([]int{}, model...))
	}
	if sc.APIHdr {
		// the APIs carry a (non-nil) default header; requests get a copy of it, so what interceptors write into
		// one request's header never shows up in another request
		for _, a := range apis {
			a.DefaultHeader = http.Header{"X-Api-Default": {"d"}}
		}
	}
	curInst := 0
	curCli := 0
	add := func(clause, fp, detail string) {
		sc.extra = append(sc.extra, Violation{Clause: clause, Fingerprint: fp, Detail: detail + fmt.Sprintf(" [instance=%d model=%v client=%d twin=%v]", curInst, model, curCli, sc.Twin)})
	}
	type result struct {
		err error
	}
	var reusedReq *http.Request
	rounds := 0
	decorated := map[int]bool{}
	doReq := func(verb string) (*Op, error) {
		var rerr error
		rounds = 0
		op := h.Do("main", verb, nil, func() (interface{}, error) {
			url := "http://c18.example.test/x"
			body := func() io.Reader { return bytes.NewReader([]byte(`{"a":1}`)) }
			var r *network.ResponseWithError
			switch verb {
			case "Get":
				r = sh.Get(url)
			case "Head":
				r = sh.Head(url)
			case "Options":
				r = sh.Options(url)
			case "Delete":
				r = sh.Delete(url)
			case "Post":
				r = sh.Post(url, "application/json", body())
			case "Put":
				r = sh.Put(url, "application/json", body())
			case "Patch":
				r = sh.Patch(url, "application/json", body())
			case "API":
				type resp struct {
					V int `json:"v"`
				}
				ar := network.APIMakeGet[resp](api, "x")(network.PathParam{}, &resp{}).Eval()
				if ar != nil {
					rerr = ar.Err
				}
				return nil, nil
			case "DoRequestReused":
				if reusedReq == nil {
					reusedReq, _ = http.NewRequest(http.MethodGet, url, nil)
				}
				reusedReq.Header = http.Header{} // (the caller starts every send from a clean header)
				r = sh.DoRequest(reusedReq)
			case "CtxCancelled", "CtxCancelledMidChain":
				ctx, cancel := context.WithCancel(context.Background())
				defer cancel()
				s.Fault("request-context-cancelled")
				if verb == "CtxCancelled" {
					cancel()
				} else {
					cancelMid = cancel
					defer func() { cancelMid = nil }()
				}
				r = sh.DoNewRequest(ctx, nil, http.MethodGet, url)
			case "APIDelete", "APIPost":
				type resp struct {
					V int `json:"v"`
				}
				var ar *network.APIResponse[resp]
				if verb == "APIDelete" {
					ar = network.APIMakeDelete[resp](api, "x")(nil, &resp{}).Eval()
				} else {
					ar = network.APIMakePostJSONBody[map[string]int, resp](api, "x")(nil, map[string]int{"a": 1}, &resp{}).Eval()
				}
				if ar != nil {
					rerr = ar.Err
				}
				return nil, nil
			}
			if r != nil {
				rerr = r.Err
			}
			return nil, nil
		})
		return op, rerr
	}
	removeVia = func(target int) { sh.RemoveInterceptor(ics[target]) }
	for si, st := range sc.Steps {
		if st.Inst < len(shs) {
			// switch to the instance this step is about
			models[curInst] = model
			curInst = st.Inst
			sh, api, model = shs[curInst], apis[curInst], models[curInst]
		}
		switch st.Kind {
		case "Add":
			var l []*network.Interceptor
			for _, i := range st.Ics {
				l = append(l, ics[i])
				model = append(model, i)
			}
			h.Do("main", "AddInterceptor", st.Ics, func() (interface{}, error) { sh.AddInterceptor(l...); return nil, nil })
			// the caller owns the slice it spread and reuses it for something else
			for i := range l {
				l[i] = decoy
			}
		case "Remove":
			var l []*network.Interceptor
			rm := map[int]bool{}
			for _, i := range st.Ics {
				l = append(l, ics[i])
				rm[i] = true
			}
			var nm []int
			for _, i := range model {
				if !rm[i] {
					nm = append(nm, i)
				}
			}
			model = nm
			h.Do("main", "RemoveInterceptor", st.Ics, func() (interface{}, error) { sh.RemoveInterceptor(l...); return nil, nil })
			for i := range l {
				l[i] = decoy
			}
		case "Clear":
			model = nil
			h.Do("main", "ClearInterceptor", nil, func() (interface{}, error) { sh.ClearInterceptor(); return nil, nil })
		case "Decorate":
			c := sh.GetHTTPClient()
			if sc.DefTwin || c == nil || c.Transport == nil {
				continue
			}
			for k := range clients {
				if clients[k] == c {
					decorated[k] = true
				}
			}
			c.Transport = &c18Decorator{next: c.Transport, rounds: &rounds}
			sc.probes["transport-decorated-behind-the-back-of-the-SimpleHTTP"]++
		case "SetClient":
			if sc.DefTwin || decorated[st.Cli] {
				continue // (a client whose decorated transport already leads to this SimpleHTTP is not handed over again)
			}
			curCli = st.Cli
			c := clients[st.Cli]
			h.Do("main", "SetHTTPClient", st.Cli, func() (interface{}, error) { sh.SetHTTPClient(c); return nil, nil })
		case "SwapTransport":
			if sc.DefTwin || decorated[st.Cli] {
				continue
			}
			curCli = st.Cli
			c := clients[st.Cli]
			nid := 100 + si
			h.Do("main", "SwapTransport+SetHTTPClient", st.Cli, func() (interface{}, error) {
				c.Transport = &c18Stub{id: nid, log: &log, depth: &depth, seen: &seen, fail: &netErr, redir: &redirects, tagged: &tagged}
				sh.SetHTTPClient(c)
				return nil, nil
			})
			sc.probes["transport-swapped"]++
		case "RequestRemoving":
			a, b := st.Ics[0], st.Ics[1]
			pa, pb, na, nb := -1, -1, 0, 0
			for k, i := range model {
				if i == a {
					pa = k
					na++
				}
				if i == b {
					pb = k
					nb++
				}
			}
			if a == b || na != 1 || nb != 1 || pa > pb {
				continue // not applicable to the current registration list
			}
			log, seen, calls, failAt = nil, nil, 0, -1
			duringRemove[a] = b
			op, rerr := doReq("Get")
			delete(duringRemove, a)
			if op.Panic != "" {
				return
			}
			// everything up to and including a ran once, in order; after it the remaining interceptors once each in
			// order, the one being unregistered at most once; then the transport once; nobody twice
			var want, wantWithout []string
			for k, i := range model {
				want = append(want, fmt.Sprintf("ic%d", i))
				if k != pb {
					wantWithout = append(wantWithout, fmt.Sprintf("ic%d", i))
				}
			}
			var got []string
			nTr := 0
			for _, e := range log {
				if strings.HasPrefix(e, "transport") {
					nTr++
				} else {
					got = append(got, e)
				}
			}
			sc.probes["interceptor-unregistered-by-an-earlier-one-during-a-request"]++
			if (fmt.Sprint(got) != fmt.Sprint(want) && fmt.Sprint(got) != fmt.Sprint(wantWithout)) || nTr != 1 || rerr != nil {
				add("chain", "chain-when-a-later-interceptor-is-unregistered-during-the-request", fmt.Sprintf("step %d: interceptor %d unregisters interceptor %d (later in the chain) while the request runs: call log %v (Err=%v), want %v or %v, then the transport once", si, a, b, log, rerr, want, wantWithout))
			}
			var nm []int
			for _, i := range model {
				if i != b {
					nm = append(nm, i)
				}
			}
			model = nm
		case "Request":
			if len(model) >= 2 {
				sc.probes["request-with-2+-interceptors"]++
			}
			// once without a fault, then once per failing position (enumerated)
			// ... and once with a network failure behind an intact chain (fp == len(model))
			// ... and once with the network answering the first hop with a redirect (fp == len(model)+1):
			// every hop the transport sees has been through the chain
			for fp := -1; fp <= len(model)+1; fp++ {
				log = nil
				seen = nil
				calls = 0
				failAt = fp
				netErr = nil
				if fp == len(model)+1 {
					if st.Verb == "Post" || st.Verb == "Put" || st.Verb == "Patch" || st.Verb == "APIPost" || strings.HasPrefix(st.Verb, "Ctx") {
						continue // a 307 re-sends the body, which needs GetBody: not the subject here
					}
					failAt = -1
					redirects = 1
					op, _ := doReq(st.Verb)
					redirects = 0
					sc.pairs++
					if op.Panic != "" {
						return
					}
					var want []string
					for hop := 0; hop < 2; hop++ {
						for _, i := range model {
							want = append(want, fmt.Sprintf("ic%d", i))
						}
						want = append(want, "transport")
					}
					var got []string
					for _, e := range log {
						if strings.HasPrefix(e, "transport") {
							e = "transport"
						}
						got = append(got, e)
					}
					sc.probes["redirect-followed"]++
					s.Fault("redirect")
					if fmt.Sprint(got) != fmt.Sprint(want) {
						add("chain", "chain-on-redirect-hop", fmt.Sprintf("step %d %s, first hop answered with a redirect: call log %v, want %v (the chain once before every hop the transport sees)", si, st.Verb, log, want))
					}
					continue
				}
				if fp == len(model) {
					failAt = -1
					netErr = fmt.Errorf("network down")
					if w := c18ErrOfKind(sc.ErrKind); w != nil {
						netErr = w
					}
				}
				op, rerr := doReq(st.Verb)
				netErr = nil
				sc.pairs++
				if op.Panic != "" {
					return
				}
				if fp == len(model) {
					// the chain ran exactly once, in order, although the network failed
					var want []string
					for _, i := range model {
						want = append(want, fmt.Sprintf("ic%d", i))
					}
					gotIcs := []string{}
					for _, e := range log {
						if !strings.HasPrefix(e, "transport") {
							gotIcs = append(gotIcs, e)
						}
					}
					sc.probes["network-failure-behind-the-chain"]++
					s.Fault("network-failure:" + sc.ErrKind)
					if fmt.Sprint(gotIcs) != fmt.Sprint(append([]string{}, want...)) && !(len(gotIcs) == 0 && len(want) == 0) {
						add("chain", "chain-count-on-network-failure", fmt.Sprintf("step %d %s network failure %v: call log %v, want interceptors %v once each", si, st.Verb, c18ErrOfKind(sc.ErrKind), log, want))
					}
					_ = rerr // what the caller gets for a network failure is C17's subject, not C18's
					continue
				}
				var want []string
				for k, i := range model {
					want = append(want, fmt.Sprintf("ic%d", i))
					if k == fp {
						break
					}
				}
				gotIcs := []string{}
				nTransport := 0
				for _, e := range log {
					if strings.HasPrefix(e, "transport") {
						nTransport++
					} else {
						gotIcs = append(gotIcs, e)
					}
				}
				ctx := fmt.Sprintf("step %d %s failing-position=%d: call log %v", si, st.Verb, fp, log)
				if fmt.Sprint(gotIcs) != fmt.Sprint(append([]string{}, want...)) && !(len(gotIcs) == 0 && len(want) == 0) {
					cl := "chain-order-or-count"
					if len(gotIcs) > len(want) {
						cl = "chain-ran-extra-interceptors"
					} else if len(gotIcs) < len(want) {
						cl = "chain-skipped-interceptors"
					}
					add("chain", cl, ctx+fmt.Sprintf(", want interceptors %v then the transport", want))
				}
				if fp < 0 {
					if nTransport != 1 {
						add("transport", fmt.Sprintf("transport-called-%d-times", min3(nTransport)), ctx)
					} else if len(log) > 0 && !strings.HasPrefix(log[len(log)-1], "transport") {
						add("transport", "transport-not-last", ctx)
					}
					if rerr != nil && !strings.HasPrefix(st.Verb, "Ctx") {
						add("error", "unexpected-error", ctx+fmt.Sprintf(": Err=%v", rerr))
					}
					for _, i := range model {
						if seen.Get(fmt.Sprintf("X-Ic-%d", i)) != "set" {
							add("headers", "interceptor-header-missing-at-transport", ctx+fmt.Sprintf(": header of interceptor %d missing in %v", i, seen))
							break
						}
					}
					// ... and nothing but what the registered interceptors wrote into THIS request: every interceptor
					// adds one value per invocation, so a header of a removed interceptor, or a value left over from an
					// earlier request, shows up as a surplus
					times := map[int]int{}
					for _, i := range model {
						times[i]++
					}
					for i := 0; i < sc.NIcs; i++ {
						if n := len(seen.Values(fmt.Sprintf("X-Ic-%d", i))); n > times[i] {
							add("headers", "header-of-another-request-or-removed-interceptor-at-transport", ctx+fmt.Sprintf(": the transport saw %d values written by interceptor %d, which is registered %d times; header %v", n, i, times[i], seen))
							break
						}
					}
				} else {
					sc.probes["failing-interceptor-position-enumerated"]++
					s.Fault("interceptor-returns-error")
					if nTransport != 0 {
						add("abort", "transport-called-after-interceptor-error", ctx)
					}
					if rerr == nil {
						add("abort", "interceptor-error-not-surfaced", ctx+": Err is nil")
					} else if !errors.Is(rerr, errs[model[fp]]) && !strings.Contains(rerr.Error(), errs[model[fp]].Error()) {
						add("abort", "wrong-error-surfaced", ctx+fmt.Sprintf(": Err=%v, want %v", rerr, errs[model[fp]]))
					}
				}
			}
			failAt = -1
			// fault: the first interceptor panics while handling a request and the caller recovers; the SimpleHTTP
			// is unharmed: the next request runs the whole chain again
			if len(model) > 0 && (st.Verb == "Get" || st.Verb == "Post" || st.Verb == "API") {
				log, calls, panicAtCall = nil, 0, 0
				func() {
					defer func() { recover() }()
					switch st.Verb {
					case "Post":
						sh.Post("http://c18.example.test/x", "application/json", bytes.NewReader([]byte(`{}`)))
					default:
						sh.Get("http://c18.example.test/x")
					}
				}()
				panicAtCall = -1
				log, seen, calls = nil, nil, 0
				op, rerr := doReq(st.Verb)
				if op.Panic != "" {
					return
				}
				var want []string
				for _, i := range model {
					want = append(want, fmt.Sprintf("ic%d", i))
				}
				want = append(want, "transport")
				var got []string
				for _, e := range log {
					if strings.HasPrefix(e, "transport") {
						e = "transport"
					}
					got = append(got, e)
				}
				sc.probes["request-after-a-panicking-interceptor"]++
				s.Fault("interceptor-panics")
				if fmt.Sprint(got) != fmt.Sprint(want) || rerr != nil {
					add("chain", "chain-after-a-recovered-interceptor-panic", fmt.Sprintf("step %d %s: the previous request's first interceptor panicked (the caller recovered); this request's call log is %v (Err=%v), want %v", si, st.Verb, log, rerr, want))
				}
			}
		}
	}
	// layering: a second SimpleHTTP built over a client whose transport IS the (last used) SimpleHTTP - a request through
	// the outer object runs the outer chain, then the inner chain, then reaches the transport, each once
	if !sc.DefTwin {
		log = nil
		failAt, calls, rounds = -1, 0, 0
		outerIc := network.Interceptor(func(req *http.Request) error { log = append(log, "outer"); return nil })
		outer := network.NewSimpleHTTPWithClientAndInterceptors(&http.Client{Transport: sh}, &outerIc)
		var lerr error
		h.Do("main", "Get-through-an-outer-SimpleHTTP", nil, func() (interface{}, error) {
			if r := outer.Get("http://c18.example.test/x"); r != nil {
				lerr = r.Err
			}
			return nil, nil
		})
		want := []string{"outer"}
		for _, i := range model {
			want = append(want, fmt.Sprintf("ic%d", i))
		}
		want = append(want, "transport")
		var got []string
		for _, e := range log {
			if strings.HasPrefix(e, "transport") {
				e = "transport"
			}
			got = append(got, e)
		}
		if fmt.Sprint(got) != fmt.Sprint(want) || lerr != nil {
			add("chain", "layered-SimpleHTTP-objects", fmt.Sprintf("a request through an outer SimpleHTTP whose client's transport is this SimpleHTTP: call log %v (Err=%v), want %v", log, lerr, want))
		}
		sc.probes["request-through-a-layered-SimpleHTTP"]++
	}
	// two goroutines issue a request each at the same time through the (last used) instance: every request runs
	// the chain for itself
	if len(model) > 0 {
		tagged = nil
		failAt, calls = -1, 0
		var ths []*simrt.Thread
		for k := 1; k <= 2; k++ {
			k := k
			name := fmt.Sprintf("requester%d", k)
			ths = append(ths, s.Go(name, func() {
				h.Do(name, "Get", k, func() (interface{}, error) {
					r := sh.Get(fmt.Sprintf("http://c18.example.test/x?t=%d", k))
					if r != nil {
						return nil, r.Err
					}
					return nil, nil
				})
			}))
		}
		if !s.WaitUntilTimeout(allDone(ths), 5*time.Minute) {
			add("hang", "concurrent-requests-did-not-finish", "two concurrent requests through one SimpleHTTP did not finish")
			return
		}
		sc.probes["two-concurrent-requests"]++
		for k := 1; k <= 2; k++ {
			var want, got []string
			for _, i := range model {
				want = append(want, fmt.Sprintf("t=%d:ic%d", k, i))
			}
			want = append(want, fmt.Sprintf("t=%d:transport", k))
			for _, e := range tagged {
				if strings.HasPrefix(e, fmt.Sprintf("t=%d:", k)) {
					got = append(got, e)
				}
			}
			if fmt.Sprint(got) != fmt.Sprint(want) {
				add("chain", "chain-of-a-concurrent-request", fmt.Sprintf("two goroutines issued a request each at the same time: request %d saw %v, want %v (all entries: %v)", k, got, want, tagged))
			}
		}
	}
}

func (sc *c18Scenario) Check(res *simrt.Result) []Violation {
	var vs []Violation
	vs = append(vs, goroutinePanics(res)...)
	if sc.h != nil {
		vs = append(vs, opPanics(sc.h)...)
	}
	vs = append(vs, sc.extra...)
	if res.Reason != "done" && len(vs) == 0 {
		vs = append(vs, Violation{Clause: "hang", Fingerprint: "history-did-not-finish", Detail: "reason " + res.Reason})
	}
	return dedupe(vs)
}

type c18TimeoutErr struct{ msg string }

func (e c18TimeoutErr) Error() string   { return e.msg }
func (e c18TimeoutErr) Timeout() bool   { return true }
func (e c18TimeoutErr) Temporary() bool { return true }

func c18ErrOfKind(k string) error {
	switch k {
	case "eof":
		return io.EOF
	case "unexpected-eof":
		return io.ErrUnexpectedEOF
	case "connreset":
		return syscall.ECONNRESET
	}
	return nil
}
