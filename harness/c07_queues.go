package harness

import (
	"fmt"
	"math"
	"sort"
	"strings"
	"time"

	"github.com/anishathalye/porcupine"

	fpgo "github.com/TeaEntityLab/fpGo/v2"
	"verif.local/simrt"
)

// C07 — ChannelQueue / BufferedChannelQueue: bounded, FIFO, exactly-once, nothing stranded.

func init() {
	register(&Property{
		ID:    "C07",
		Files: []string{"queue.go"},
		Funcs: []string{"BufferedChannelQueue", "ChannelQueue"},
		Gen:   genC07,
		Rule: "producers (Offer/Put, unique values) x consumers (Take/TakeWithTimeout/Poll/channel receive/Count) on a real BufferedChannelQueue (loader + free-node goroutines on the fake clock) " +
			"or a bare ChannelQueue, configurations (capacity, buffer maximum, intervals) drawn per run, optional fill-only runs; then a fair settle phase in which the main thread repeatedly calls Poll/TakeWithTimeout; " +
			"oracles over the stamped history: invented/duplicate/lost, real-time FIFO, bound, non-blocking, error necessity, timeout honesty, conservation, nothing stranded (capacity>=1); " +
			"non-trivial = a producer call and a consumer call overlapped or the overflow list was certainly used; distinct = distinct context-switch signature",
		Real:        []string{"fpgo.BufferedChannelQueue incl. loadFromPool/freeNodePool goroutines", "fpgo.ChannelQueue", "fpgo.LinkedListQueue (overflow list)", "Go channels, RWMutex (probed), timers on the fake clock"},
		Stub:        []string{"goroutine scheduler", "clock", "sync.Pool"},
		Assumptions: []string{"the nothing-stranded clause is evaluated for channelCapacity>=1 only (as the property states)"},
	})
}

type c07Op struct {
	Kind  string        `json:"op"`
	D     time.Duration `json:"d,omitempty"`
	Pause time.Duration `json:"pause,omitempty"`
}

type c07Scenario struct {
	Kind      string        `json:"kind"` // buffered | chan
	Cap       int           `json:"cap"`
	BufMax    int           `json:"buf_max"`
	HookSize  int           `json:"hook_size"`
	LoadDur   time.Duration `json:"load_dur"`
	FreeDur   time.Duration `json:"free_dur"`
	Producers [][]c07Op     `json:"producers"`
	Consumers [][]c07Op     `json:"consumers"`
	Fill      bool          `json:"fill_only"`
	Settle    string        `json:"settle_calls"` // mixed | poll | take-timeout: what the main thread repeats after the producers stopped
	TakeRace  bool          `json:"take_race,omitempty"`

	h         *Hist
	probes    map[string]int
	extra     []Violation
	prodHung  bool
	finalCnt  int
	haveFinal bool
	settled   bool
}

func genC07(t *simrt.Tape, tier string) Scenario {
	sc := &c07Scenario{probes: map[string]int{}}
	sc.Kind = []string{"buffered", "buffered", "buffered", "chan"}[t.Choose(4)]
	sc.Cap = []int{1, 0, 2, 3, 5}[t.Choose(5)]
	sc.BufMax = []int{2, 0, 1, 5, 50, -1}[t.Choose(6)]
	if sc.Kind == "chan" {
		sc.BufMax = 0
	}
	sc.HookSize = []int{0, 1, 3, math.MaxInt, -1}[t.ChooseW([]int{3, 3, 3, 1, 1})] // MaxInt = never trim; negative = keep nothing
	sc.Settle = []string{"mixed", "poll", "take-timeout"}[t.Choose(3)]
	sc.LoadDur = drawDur(t)
	sc.FreeDur = drawDur(t)
	maxP, maxK, maxOps := 3, 3, 5
	if tier == "thorough" {
		maxP, maxK, maxOps = 6, 6, 6
	}
	pause := func() time.Duration {
		if t.Bool(1, 5) {
			return drawDur(t)
		}
		return 0
	}
	// (a flavour that lowered the buffer maximum on the live queue, below its content, was tried for seeded change C07v and
	// withdrawn: C07 quantifies over configurations, not over re-configuration in use - same reasoning as for C07r, DESIGN.md §9, 18)
	if t.Bool(1, 10) {
		sc.Fill = true
		n := sc.Cap + sc.BufMax + 2
		var ops []c07Op
		for i := 0; i < n; i++ {
			ops = append(ops, c07Op{Kind: "Offer"})
		}
		sc.Producers = [][]c07Op{ops}
		return sc
	}
	if sc.Kind == "buffered" && t.Bool(1, 8) {
		// flavour: a few offers, then several consumers that each call a blocking Take at about the same
		// moment and nobody touches the queue afterwards (lost wake-ups between consumers)
		sc.Cap = 1 + t.Choose(2)
		if sc.BufMax == 0 {
			sc.BufMax = 2
		}
		n := sc.Cap + 1 + t.Choose(2)
		var ops []c07Op
		for i := 0; i < n; i++ {
			ops = append(ops, c07Op{Kind: "Offer"})
		}
		sc.Producers = [][]c07Op{ops}
		nk := 2 + t.Choose(maxK)
		for c := 0; c < nk; c++ {
			sc.Consumers = append(sc.Consumers, []c07Op{{Kind: "Take", Pause: 0}})
		}
		sc.TakeRace = true
		return sc
	}
	np := 1 + t.Choose(maxP)
	nk := t.Choose(maxK + 1)
	for p := 0; p < np; p++ {
		n := 1 + t.Choose(maxOps)
		var ops []c07Op
		for i := 0; i < n; i++ {
			k := []string{"Offer", "Put"}[t.Choose(2)]
			op := c07Op{Kind: k, Pause: pause()}
			if sc.Kind == "chan" && k == "Put" && t.Bool(1, 2) {
				op.Kind = "PutWithTimeout"
				op.D = drawDur(t)
			}
			ops = append(ops, op)
		}
		sc.Producers = append(sc.Producers, ops)
	}
	kinds := []string{"Poll", "Take", "TakeWithTimeout", "GetChannelRecv", "Count"}
	for c := 0; c < nk; c++ {
		n := 1 + t.Choose(maxOps)
		var ops []c07Op
		for i := 0; i < n; i++ {
			op := c07Op{Kind: kinds[t.Choose(len(kinds))], Pause: pause()}
			if op.Kind == "TakeWithTimeout" || op.Kind == "GetChannelRecv" {
				op.D = drawDur(t)
			}
			ops = append(ops, op)
		}
		sc.Consumers = append(sc.Consumers, ops)
	}
	return sc
}

func (sc *c07Scenario) Describe() interface{} { return sc }
func (sc *c07Scenario) Config() simrt.Config {
	return simrt.Config{Horizon: 2 * time.Hour, MaxSteps: 300000}
}
func (sc *c07Scenario) Probes() map[string]int { return sc.probes }

type c07q interface {
	Offer(int) error
	Put(int) error
	Take() (int, error)
	TakeWithTimeout(time.Duration) (int, error)
	Poll() (int, error)
}

func isRecvOp(name string) bool {
	switch name {
	case "Take", "TakeWithTimeout", "Poll", "GetChannelRecv":
		return true
	}
	return false
}

func isOfferOp(name string) bool {
	switch name {
	case "Offer", "Put", "PutWithTimeout":
		return true
	}
	return false
}

func (sc *c07Scenario) Run(s *simrt.Sim) {
	h := &Hist{S: s}
	sc.h = h
	var q c07q
	var bq *fpgo.BufferedChannelQueue[int]
	var cq fpgo.ChannelQueue[int]
	if sc.Kind == "buffered" {
		if sc.HookSize == 1 {
			// configured through the setters instead of the constructor arguments
			bq = fpgo.NewBufferedChannelQueue[int](sc.Cap, sc.BufMax+7, 9).SetBufferSizeMaximum(sc.BufMax).SetNodeHookPoolSize(sc.HookSize)
		} else {
			bq = fpgo.NewBufferedChannelQueue[int](sc.Cap, sc.BufMax, sc.HookSize)
		}
		bq.SetLoadFromPoolDuration(sc.LoadDur).SetFreeNodeHookPoolIntervalDuration(sc.FreeDur)
		if bq.GetBufferSizeMaximum() != sc.BufMax || bq.GetNodeHookPoolSize() != sc.HookSize || bq.GetLoadFromPoolDuration() != sc.LoadDur ||
			bq.GetFreeNodeHookPoolIntervalDuration() != sc.FreeDur || bq.IsClosed() {
			sc.extra = append(sc.extra, Violation{Clause: "configuration", Fingerprint: "buffered:getters-disagree-with-setters", Detail: "a Get* accessor does not return what was configured"})
		}
		q = bq
	} else {
		cq = fpgo.NewChannelQueue[int](sc.Cap)
		q = cq
	}
	getCh := func() chan int {
		if bq != nil {
			return bq.GetChannel()
		}
		return cq
	}
	count := func() int {
		if bq != nil {
			return bq.Count()
		}
		return len(cq)
	}
	do := func(name string, op c07Op, v int) *Op {
		switch op.Kind {
		case "Offer":
			return h.Do(name, "Offer", v, func() (interface{}, error) { return nil, q.Offer(v) })
		case "Put":
			return h.Do(name, "Put", v, func() (interface{}, error) { return nil, q.Put(v) })
		case "PutWithTimeout":
			return h.Do(name, "PutWithTimeout", v, func() (interface{}, error) { return op.D, cq.PutWithTimeout(v, op.D) })
		case "Poll":
			return h.Do(name, "Poll", nil, func() (interface{}, error) { return q.Poll() })
		case "Take":
			return h.Do(name, "Take", nil, func() (interface{}, error) { return q.Take() })
		case "TakeWithTimeout":
			return h.Do(name, "TakeWithTimeout", op.D, func() (interface{}, error) { return q.TakeWithTimeout(op.D) })
		case "Count":
			return h.Do(name, "Count", nil, func() (interface{}, error) { return count(), nil })
		case "GetChannelRecv":
			return h.Do(name, "GetChannelRecv", op.D, func() (interface{}, error) {
				ch := getCh()
				tk := simrt.B(-4)
				tm := time.NewTimer(op.D) // after the yield point of B: no virtual time may pass before the select
				defer tm.Stop()
				select {
				case v, ok := <-ch:
					simrt.U(tk)
					if !ok {
						return 0, fpgo.ErrQueueIsClosed
					}
					return v, nil
				case <-tm.C:
					simrt.U(tk)
					return 0, fpgo.ErrQueueTakeTimeout
				}
			})
		}
		return nil
	}
	var prods []*simrt.Thread
	for p, ops := range sc.Producers {
		p, ops := p, ops
		name := fmt.Sprintf("prod%d", p)
		prods = append(prods, s.Go(name, func() {
			for i, op := range ops {
				do(name, op, (p+1)*1000+i)
				if op.Pause > 0 {
					s.Sleep(op.Pause)
				} else {
					s.Yield()
				}
			}
		}))
	}
	if sc.TakeRace {
		// the producer fills channel + overflow first and the loader finishes its (unsuccessful) pass
		s.WaitUntil(allDone(prods))
		s.Sleep(3*sc.LoadDur + time.Millisecond)
	}
	var cons []*simrt.Thread
	curOp := map[int]*Op{}
	for c, ops := range sc.Consumers {
		c, ops := c, ops
		name := fmt.Sprintf("cons%d", c)
		cons = append(cons, s.Go(name, func() {
			for _, op := range ops {
				if op.Kind == "Take" {
					// the op record is created inside do(); remember that a blocking Take is in flight
					curOp[c] = &Op{Name: "Take"}
				}
				do(name, op, 0)
				delete(curOp, c)
				if op.Pause > 0 {
					s.Sleep(op.Pause)
				} else {
					s.Yield()
				}
			}
		}))
	}
	prodDone := allDone(prods)
	// producers on a bare ChannelQueue may be blocked in Put until somebody receives
	if sc.Fill {
		s.WaitUntil(prodDone) // Offer never blocks; nobody may consume before the fill is over
	} else {
		s.WaitUntilTimeout(prodDone, 30*time.Second)
	}
	s.SetFair(true)
	pause := 3*sc.LoadDur + time.Millisecond
	remaining := func() int {
		acc := map[int]bool{}
		for _, op := range h.Ops {
			if isOfferOp(op.Name) && op.Returned && op.Err == nil && op.Panic == "" {
				acc[op.Arg.(int)] = true
			}
		}
		for _, op := range h.Ops {
			if isRecvOp(op.Name) && op.Returned && op.Err == nil && op.Panic == "" {
				delete(acc, op.Val.(int))
			}
		}
		return len(acc)
	}
	total := 0
	for _, ops := range sc.Producers {
		total += len(ops)
	}
	// (A "passive drain" clause — a consumer blocked in a plain Take must be served without anybody
	// calling the queue again — was tried here and REMOVED: the property only promises that *repeated*
	// Take/Poll calls retrieve everything, and the unchanged code can legitimately waste a wake-up when
	// the loader's pass falls between a Take's notify and its receive. See DESIGN.md §9.)
	// Settle: keep receiving (fairly scheduled) until every accepted value came out. While producers
	// are still working through their pauses only virtual time bounds the loop; once they are done
	// the number of further attempts is bounded, far above any legal latency.
	after := 0
	for i := 0; s.Now() < 90*time.Minute; i++ {
		pd := prodDone()
		if pd && remaining() == 0 {
			break
		}
		if pd {
			after++
			if after > 6*total+30 {
				break
			}
		}
		var op *Op
		if (sc.Settle == "mixed" && i%2 == 0) || sc.Settle == "poll" {
			op = do("main", c07Op{Kind: "Poll"}, 0)
		} else {
			op = do("main", c07Op{Kind: "TakeWithTimeout", D: pause}, 0)
		}
		if op.Panic != "" {
			return
		}
		if op.Err != nil {
			s.Sleep(pause)
		}
	}
	sc.settled = true
	sc.prodHung = !prodDone()
	// quiescence: every consumer has finished or is blocked for good in a blocking Take
	s.WaitUntilTimeout(func() bool {
		for c, th := range cons {
			if th.Done() {
				continue
			}
			if th.Blocked() && curOp[c] != nil {
				continue
			}
			return false
		}
		return true
	}, 30*time.Minute)
	s.Sleep(pause)
	op := h.Do("main", "Count", nil, func() (interface{}, error) { return count(), nil })
	if op.Panic == "" {
		sc.finalCnt = op.Val.(int)
		sc.haveFinal = true
	}
}

func (sc *c07Scenario) Nontrivial(res *simrt.Result) bool {
	return sc.probes["producer-consumer-overlap"] > 0 || sc.probes["overflow-certainly-used"] > 0
}

func (sc *c07Scenario) Check(res *simrt.Result) []Violation {
	var vs []Violation
	vs = append(vs, goroutinePanics(res)...)
	if sc.h == nil {
		return vs
	}
	h := sc.h
	vs = append(vs, opPanics(h)...)
	add := func(clause, fp, detail string) {
		vs = append(vs, Violation{Clause: clause, Fingerprint: sc.Kind + ":" + fp, Detail: detail})
	}
	if res.Reason != "done" {
		add("hang", "run-did-not-finish", "run ended with reason "+res.Reason+"; pending: "+pendingOps(h))
		return dedupe(vs)
	}
	if len(vs) > 0 {
		return dedupe(vs) // after a panic the counting oracles are meaningless
	}
	vs = append(vs, sc.extra...)
	bound := sc.Cap
	if sc.BufMax > 0 {
		bound += sc.BufMax
	}
	offers := map[int]*Op{}   // value -> offer op (any outcome)
	accepted := map[int]*Op{} // value -> accepted offer
	recvBy := map[int][]*Op{}
	var recvOK []*Op
	for _, op := range h.Ops {
		if isOfferOp(op.Name) {
			offers[op.Arg.(int)] = op
			if op.Returned && op.Err == nil {
				accepted[op.Arg.(int)] = op
			}
		}
		if isRecvOp(op.Name) && op.Returned && op.Err == nil {
			v := op.Val.(int)
			recvBy[v] = append(recvBy[v], op)
			recvOK = append(recvOK, op)
		}
	}
	// overlap probe
	for _, a := range h.Ops {
		if !isOfferOp(a.Name) || a.Thread == "main" {
			continue
		}
		for _, b := range h.Ops {
			if isRecvOp(b.Name) && b.Thread != "main" && a.Inv < b.Ret && b.Inv < a.Ret {
				sc.probes["producer-consumer-overlap"]++
				goto probed
			}
		}
	}
probed:
	// 1. invented / duplicated / received before offered
	var vals []int
	for v := range recvBy {
		vals = append(vals, v)
	}
	sort.Ints(vals)
	for _, v := range vals {
		rs := recvBy[v]
		off := offers[v]
		if off == nil {
			add("invented", "value-never-offered", fmt.Sprintf("%s returned %d which was never offered; %s", rs[0].Name, v, histString(h)))
			continue
		}
		if len(rs) > 1 {
			add("duplicate", "value-delivered-twice", fmt.Sprintf("value %d delivered %d times (%s and %s); %s", v, len(rs), rs[0].String(), rs[1].String(), histString(h)))
		}
		for _, r := range rs {
			if r.Ret < off.Inv {
				add("invented", "received-before-offered", fmt.Sprintf("%s returned %d before its Offer was invoked", r.String(), v))
			}
		}
		if off.Returned && off.Err != nil {
			add("rejected-delivered", off.Name, fmt.Sprintf("value %d was rejected (%v) but delivered by %s", v, off.Err, rs[0].String()))
		}
	}
	// 2. real-time FIFO: offer(v1) returned before offer(v2) was invoked => never recv(v2) returned before recv(v1) was invoked
	var accVals []int
	for v := range accepted {
		accVals = append(accVals, v)
	}
	sort.Ints(accVals)
	for _, v1 := range accVals {
		for _, v2 := range accVals {
			o1, o2 := accepted[v1], accepted[v2]
			if v1 == v2 || !(o1.Ret < o2.Inv) {
				continue
			}
			r1, r2 := recvBy[v1], recvBy[v2]
			if len(r2) == 0 {
				continue
			}
			if len(r1) == 0 {
				// v2 came out although the earlier v1 is still inside (or lost): only definite once the run settled
				continue
			}
			if r2[0].Ret < r1[0].Inv {
				who := "different producers"
				if o1.Thread == o2.Thread {
					who = "same producer"
				}
				add("fifo", "later-value-delivered-first ("+who+")", fmt.Sprintf("%d was accepted before %d was offered, but %s returned before %s was invoked; %s", v1, v2, r2[0].String(), r1[0].String(), histString(h)))
			}
		}
	}
	// 3. bound
	type ev struct {
		at uint64
		d  int
	}
	var evs []ev
	for _, o := range accepted {
		evs = append(evs, ev{o.Ret, +1})
	}
	for _, r := range recvOK {
		evs = append(evs, ev{r.Inv, -1})
	}
	sort.Slice(evs, func(i, j int) bool { return evs[i].at < evs[j].at })
	inside, maxInside := 0, 0
	for _, e := range evs {
		inside += e.d
		if inside > maxInside {
			maxInside = inside
		}
	}
	if maxInside > bound {
		add("bound", "more-items-than-capacity-plus-buffer", fmt.Sprintf("at some instant at least %d items were inside; capacity %d + buffer %d; %s", maxInside, sc.Cap, sc.BufMax, histString(h)))
	}
	if maxInside > sc.Cap {
		sc.probes["overflow-certainly-used"]++
	}
	for _, op := range h.Ops {
		if op.Name == "Count" && op.Returned && op.Panic == "" {
			if c := op.Val.(int); c > bound || c < 0 {
				add("bound", "count-out-of-range", fmt.Sprintf("%s with capacity %d + buffer %d", op.String(), sc.Cap, sc.BufMax))
			}
		}
	}
	// fill-only: exactly capacity+buffer consecutive offers succeed
	if sc.Fill {
		okN := 0
		for _, op := range h.Ops {
			if op.Thread == "prod0" && op.Name == "Offer" {
				if op.Err == nil {
					okN++
				} else {
					break
				}
			}
		}
		if okN != bound {
			add("bound", "fill-count", fmt.Sprintf("with no consumer, %d consecutive Offers succeeded; want exactly capacity %d + buffer %d", okN, sc.Cap, sc.BufMax))
		}
		sc.probes["fill-run"]++
	}
	// 4. non-blocking, 5. error necessity, timeouts
	need := sc.BufMax
	if sc.BufMax <= 0 {
		need = sc.Cap
	}
	for _, op := range h.Ops {
		if !op.Returned {
			continue
		}
		switch op.Name {
		case "Offer", "Poll", "Count":
			if op.Blocked > 0 {
				add("blocking", op.Name, op.String()+" blocked on a channel/timer")
			}
			// ... nor do they wait behind somebody who does: in a run without injected stalls virtual time passes only
			// while every thread is blocked, so a non-blocking call that took virtual time was made to wait (e.g. for a
			// lock whose holder sleeps)
			if d := op.TRet - op.TInv; d > 0 && res.Faults["stall"] == 0 {
				add("blocking", op.Name+":took-virtual-time", fmt.Sprintf("%s took %v of virtual time in a stall-free run", op.String(), d))
			}
		}
		if op.Name == "Put" && sc.Kind == "buffered" && op.Blocked > 0 {
			add("blocking", "Put", op.String()+" blocked on a channel/timer")
		}
		if op.Err == nil {
			continue
		}
		switch {
		case (op.Name == "Offer" || (op.Name == "Put" && sc.Kind == "buffered")) && op.Err == fpgo.ErrQueueIsFull:
			sc.probes["full-error-seen"]++
			// most items that can possibly be inside at any time during the call
			maxIn := 0
			for _, o := range h.Ops {
				if isOfferOp(o.Name) && o != op && o.Inv < op.Ret && (!o.Returned || o.Err == nil) {
					maxIn++
				}
			}
			for _, r := range recvOK {
				if r.Ret < op.Inv {
					maxIn--
				}
			}
			if maxIn < need {
				add("error-necessity", "full-while-not-full", fmt.Sprintf("%s although at most %d items can be inside (needs >= %d: capacity %d, buffer %d); %s", op.String(), maxIn, need, sc.Cap, sc.BufMax, histString(h)))
			}
		case op.Name == "Poll" && op.Err == fpgo.ErrQueueIsEmpty:
			sc.probes["poll-empty-seen"]++
			if sc.BufMax <= 0 {
				minIn := 0
				for _, o := range accepted {
					if o.Ret < op.Inv {
						minIn++
					}
				}
				for _, r := range recvOK {
					if r.Inv < op.Ret {
						minIn--
					}
				}
				if minIn >= 1 {
					add("error-necessity", "empty-while-not-empty", fmt.Sprintf("%s although at least %d items were in the channel during the whole call; %s", op.String(), minIn, histString(h)))
				}
			}
		case (op.Name == "TakeWithTimeout" || op.Name == "GetChannelRecv") && op.Err == fpgo.ErrQueueTakeTimeout:
			sc.probes["take-timeout-seen"]++
			if d := op.Arg.(time.Duration); op.TRet-op.TInv < d {
				add("timeout", "early-take-timeout", fmt.Sprintf("%s after only %v", op.String(), op.TRet-op.TInv))
			}
		case op.Name == "PutWithTimeout" && op.Err == fpgo.ErrQueuePutTimeout:
			sc.probes["put-timeout-seen"]++
			if d := op.Val.(time.Duration); op.TRet-op.TInv < d {
				add("timeout", "early-put-timeout", fmt.Sprintf("%s after only %v", op.String(), op.TRet-op.TInv))
			}
		default:
			add("unexpected-error", op.Name+":"+op.Err.Error(), op.String())
		}
	}
	// 6./7. conservation and nothing stranded, at quiescence
	if sc.settled {
		var missing []int
		for _, v := range accVals {
			if len(recvBy[v]) == 0 {
				missing = append(missing, v)
			}
		}
		if sc.haveFinal && sc.finalCnt != len(missing) {
			add("conservation", "count-differs-from-accepted-minus-delivered", fmt.Sprintf("at quiescence Count()=%d but accepted-delivered=%d (missing %v); %s", sc.finalCnt, len(missing), missing, histString(h)))
		}
		if sc.prodHung {
			add("hang", "producer-still-blocked", "a producer call never returned although the main thread kept receiving: "+pendingOps(h))
		}
		if len(missing) > 0 && sc.Cap >= 1 {
			sc.probes["stranded-check-ran"]++
			add("stranded", "accepted-items-not-retrievable", fmt.Sprintf("values %v were accepted but repeated Poll/TakeWithTimeout calls in a fair settle phase never retrieved them (Count()=%d); %s", missing, sc.finalCnt, histString(h)))
		} else if sc.Cap >= 1 {
			sc.probes["stranded-check-ran"]++
		}
	}
	if len(vs) == 0 {
		if v := sc.c07Linearizable(h); v != nil {
			vs = append(vs, *v)
		}
	}
	return dedupe(vs)
}

// ---- linearizability against a nondeterministic reference queue (porcupine) ----------------------
//
// Sequential specification: a FIFO sequence of items whose first k items are "immediately available"
// (the channel part, k <= capacity) and whose remaining items are the overflow part (<= buffer maximum).
// The loader is an internal nondeterministic step: k may grow (never beyond the capacity) at any moment.
//   Offer/Put ok    : the value is appended; it joins the channel part only if the overflow part is empty
//                     and the channel part has room, otherwise the overflow part must have room
//   Offer/Put full  : only if the value could not go straight to the channel part and the overflow part is
//                     at its maximum
//   Poll ok v       : k >= 1 and v is the first item; Poll empty: k == 0 (nothing immediately available)
//   Take*/receive v : as Poll ok; a timeout changes nothing (its honesty is checked on the clock, above)
// Where the property leaves a choice (an accepted value may wait in the overflow part although the
// channel has room) the model allows both. Count is not part of the model (it reads two parts
// non-atomically; the property only constrains it at quiescence). Unbuffered channels (capacity 0) are
// rendezvous and have no sequential specification: not checked here.

type c07In struct {
	kind string // offer | put-block | poll | take
	val  int
}
type c07Out struct {
	val     int
	ok      bool
	full    bool
	empty   bool
	timeout bool
}
type c07State struct {
	k     int
	items string // "v1,v2,"
}

func c07Model(capacity, bufMax int) porcupine.Model {
	if bufMax < 0 {
		bufMax = 0
	}
	split := func(s string) []string {
		if s == "" {
			return nil
		}
		return strings.Split(strings.TrimSuffix(s, ","), ",")
	}
	nm := porcupine.NondeterministicModel{
		Init: func() []interface{} { return []interface{}{c07State{}} },
		Step: func(state, input, output interface{}) []interface{} {
			st := state.(c07State)
			in := input.(c07In)
			out := output.(c07Out)
			items := split(st.items)
			n := len(items)
			var next []interface{}
			if out.timeout {
				return []interface{}{st}
			}
			hi := capacity
			if n < hi {
				hi = n
			}
			for k := st.k; k <= hi; k++ { // loader moves
				over := n - k
				direct := over == 0 && k < capacity
				switch in.kind {
				case "offer", "put-block":
					switch {
					case out.ok:
						if direct {
							next = append(next, c07State{k + 1, st.items + fmt.Sprintf("%d,", in.val)})
						}
						if over < bufMax {
							next = append(next, c07State{k, st.items + fmt.Sprintf("%d,", in.val)})
						}
					case out.full:
						if !direct && over >= bufMax {
							next = append(next, c07State{k, st.items})
						}
					}
				case "poll", "take":
					switch {
					case out.ok:
						if k >= 1 && items[0] == fmt.Sprint(out.val) {
							rest := ""
							for _, x := range items[1:] {
								rest += x + ","
							}
							next = append(next, c07State{k - 1, rest})
						}
					case out.empty:
						if k == 0 {
							next = append(next, c07State{k, st.items})
						}
					}
				}
			}
			return next
		},
		Equal: func(a, b interface{}) bool { return a.(c07State) == b.(c07State) },
		DescribeOperation: func(input, output interface{}) string {
			return fmt.Sprintf("%+v -> %+v", input, output)
		},
	}
	return nm.ToModel()
}

// c07Linearizable feeds the completed calls of the history to porcupine. Returns a violation,
// or nil; inconclusive results (Unknown) only bump a probe.
func (sc *c07Scenario) c07Linearizable(h *Hist) *Violation {
	if sc.Cap < 1 {
		return nil
	}
	var pops []porcupine.Operation
	for _, op := range h.Ops {
		if op.Panic != "" {
			return nil
		}
		if !op.Returned {
			if isOfferOp(op.Name) {
				return nil // a producer that never returned is reported by the hang clause
			}
			continue // a receive that never returned took nothing
		}
		var in c07In
		var out c07Out
		switch op.Name {
		case "Offer", "Put", "PutWithTimeout":
			in = c07In{kind: "offer", val: op.Arg.(int)}
			if op.Name != "Offer" && sc.Kind == "chan" {
				in.kind = "put-block"
			}
			switch op.Err {
			case nil:
				out.ok = true
			case fpgo.ErrQueueIsFull:
				out.full = true
			case fpgo.ErrQueuePutTimeout:
				out.timeout = true
			default:
				return nil // reported as unexpected-error
			}
		case "Poll", "Take", "TakeWithTimeout", "GetChannelRecv":
			in = c07In{kind: "take"}
			if op.Name == "Poll" {
				in.kind = "poll"
			}
			switch op.Err {
			case nil:
				out.ok = true
				out.val = op.Val.(int)
			case fpgo.ErrQueueIsEmpty:
				out.empty = true
			case fpgo.ErrQueueTakeTimeout:
				out.timeout = true
			default:
				return nil
			}
		default:
			continue
		}
		pops = append(pops, porcupine.Operation{ClientId: op.TID, Input: in, Call: int64(op.Inv), Output: out, Return: int64(op.Ret)})
	}
	if len(pops) == 0 || len(pops) > 80 {
		sc.probes["porcupine-skipped-long-history"]++
		return nil
	}
	budget := 2 * time.Second
	if len(pops) > 30 {
		budget = 300 * time.Millisecond
	}
	switch porcupine.CheckOperationsTimeout(c07Model(sc.Cap, sc.BufMax), pops, budget) {
	case porcupine.Illegal:
		return &Violation{Clause: "not-linearizable", Fingerprint: sc.Kind + ":no-sequential-queue-behaviour-explains-the-history",
			Detail: fmt.Sprintf("porcupine: no order of the calls consistent with real time is a behaviour of a FIFO queue with channel part <= %d and overflow part <= %d: %s", sc.Cap, sc.BufMax, histString(h))}
	case porcupine.Unknown:
		sc.probes["porcupine-unknown"]++
	default:
		sc.probes["porcupine-ok"]++
	}
	return nil
}
