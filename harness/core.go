// Package harness holds the simulated scenarios and oracles, one file per
// property. It is compiled as a test binary (testing/synctest needs a
// *testing.T) against the instrumented copy of /repo's working tree.
package harness

import (
	"fmt"
	"regexp"
	"runtime/debug"
	"sort"
	"strings"
	"time"

	"verif.local/simrt"
)

// Violation is one definite violation of a property clause.
type Violation struct {
	Clause      string `json:"clause"`
	Fingerprint string `json:"fingerprint"`
	Detail      string `json:"detail"`
}

// Scenario is one generated scenario of a property.
type Scenario interface {
	// Describe returns the explicit scenario (JSON-able) for replay files and samples.
	Describe() interface{}
	// Config bounds the run.
	Config() simrt.Config
	// Run is the body of simulated thread 0.
	Run(s *simrt.Sim)
	// Check evaluates the oracles over the recorded history.
	Check(res *simrt.Result) []Violation
	// Probes returns "this rare condition was hit" counters of the run.
	Probes() map[string]int
	// Nontrivial reports whether the run exercised the property in a non-trivial way.
	Nontrivial(res *simrt.Result) bool
}

// Signer is implemented by scenarios whose distinct cases are not distinguished by the
// context-switch signature (single-threaded histories x fault placements).
type Signer interface {
	Signature(res *simrt.Result) string
}

// Property binds an id to its scenario generator.
type Property struct {
	ID  string
	Gen func(t *simrt.Tape, tier string) Scenario
	// Rule describes how cases are generated and what makes one non-trivial.
	Rule string
	Real []string
	Stub []string
	// Files are the source files (relative to the module root) whose reach is reported.
	Files []string
	// Funcs restricts the reach report to functions whose name contains one of these strings.
	Funcs       []string
	Assumptions []string
}

var registry = map[string]*Property{}

func register(p *Property) { registry[p.ID] = p }

// ---- history -----------------------------------------------------------------

// Op is one API call of the recorded history.
type Op struct {
	ID       int
	Thread   string
	TID      int
	Name     string
	Arg      interface{}
	Inv, Ret uint64
	TInv     time.Duration
	TRet     time.Duration
	Val      interface{}
	Err      error
	Panic    string // normalised message, "" if none
	PanicAt  string // innermost in-repo frames
	Returned bool
	Blocked  int // times the calling thread was found durably blocked (channel/timer/WaitGroup) during the call
}

func (o *Op) String() string {
	s := fmt.Sprintf("%s %s(%v)", o.Thread, o.Name, o.Arg)
	if !o.Returned {
		return s + " [never returned]"
	}
	if o.Panic != "" {
		return s + " PANIC " + o.Panic
	}
	if o.Err != nil {
		return s + fmt.Sprintf(" -> %v, err=%v", o.Val, o.Err)
	}
	return s + fmt.Sprintf(" -> %v", o.Val)
}

// Hist is the operation history of a run.
type Hist struct {
	S   *simrt.Sim
	Ops []*Op
}

// Do records the invocation, runs f (recovering a panic) and records the return.
func (h *Hist) Do(thread, name string, arg interface{}, f func() (interface{}, error)) *Op {
	op := &Op{ID: len(h.Ops), Thread: thread, TID: h.S.Self().ID, Name: name, Arg: arg}
	op.Inv = h.S.Stamp()
	op.TInv = h.S.Now()
	h.Ops = append(h.Ops, op)
	self := h.S.Self()
	b0 := self.Blocks
	func() {
		defer func() {
			if r := recover(); r != nil {
				op.Panic = normPanic(r)
				fr := repoFrames(string(debug.Stack()), 3)
				if strings.HasPrefix(op.Panic, "runaway recursion") {
					// the innermost frame is wherever the depth check happened to fire: name the cycle instead
					set := map[string]bool{}
					for _, f := range repoFrames(string(debug.Stack()), 12) {
						set[f] = true
					}
					fr = fr[:0]
					for f := range set {
						fr = append(fr, f)
					}
					sort.Strings(fr)
					op.Name = "request"
				}
				op.PanicAt = strings.Join(fr, " <- ")
			}
		}()
		op.Val, op.Err = f()
	}()
	op.Blocked = self.Blocks - b0
	op.Ret = h.S.Stamp()
	op.TRet = h.S.Now()
	op.Returned = true
	h.S.Event("op", op.String())
	return op
}

var (
	reHex  = regexp.MustCompile(`0x[0-9a-fA-F]+`)
	reNum  = regexp.MustCompile(`\b\d+\b`)
	reGen  = regexp.MustCompile(`\[[^\]]*\]`)
	reArgs = regexp.MustCompile(`\(.*\)$`)
)

func normPanic(r interface{}) string {
	s := fmt.Sprint(r)
	if e, ok := r.(error); ok {
		s = e.Error()
	}
	s = reHex.ReplaceAllString(s, "0x?")
	if len(s) > 160 {
		s = s[:160]
	}
	return s
}

// repoFrames extracts the innermost n function names of the code under test from a stack dump.
func repoFrames(stack string, n int) []string {
	var out []string
	for _, line := range strings.Split(stack, "\n") {
		if strings.HasPrefix(line, "\t") || !strings.Contains(line, "TeaEntityLab/fpGo/v2") {
			continue
		}
		f := line
		if i := strings.Index(f, "TeaEntityLab/fpGo/v2"); i >= 0 {
			f = f[i+len("TeaEntityLab/fpGo/v2"):]
		}
		f = strings.TrimPrefix(f, ".")
		f = strings.TrimPrefix(f, "/")
		// strip the argument list, then generic instantiations
		if i := strings.LastIndex(f, "("); i > 0 && strings.HasSuffix(f, ")") {
			f = f[:i]
		}
		f = reGen.ReplaceAllString(f, "")
		f = strings.TrimSuffix(f, ".")
		if f == "" {
			continue
		}
		if len(out) > 0 && out[len(out)-1] == f {
			continue
		}
		out = append(out, f)
		if len(out) >= n {
			break
		}
	}
	return out
}

// goroutinePanics turns GOROUTINE-PANIC events (a panic that escaped a goroutine of the
// code under test: in production the process dies) into violations.
var reNumLine = regexp.MustCompile(`:[0-9]+`)

func goroutinePanics(res *simrt.Result) []Violation {
	var out []Violation
	for _, f := range res.Fatals {
		out = append(out, Violation{Clause: "fatal-error", Fingerprint: reNumLine.ReplaceAllString(f, ""), Detail: "a real execution dies here with an unrecoverable Go runtime fatal error: " + f})
	}
	for _, th := range res.Threads {
		if th.PanicVal == nil {
			continue
		}
		msg := normPanic(th.PanicVal)
		at := strings.Join(repoFrames(th.PanicStack, 3), " <- ")
		out = append(out, Violation{
			Clause:      "goroutine-panic",
			Fingerprint: msg + " @ " + at,
			Detail:      fmt.Sprintf("thread T%d(%s) died with panic %q at %s", th.ID, th.Name, msg, at),
		})
	}
	return out
}

// opPanics turns panics recovered around API calls into violations.
func opPanics(h *Hist) []Violation {
	var out []Violation
	for _, op := range h.Ops {
		if op.Panic != "" {
			out = append(out, Violation{
				Clause:      "call-panic",
				Fingerprint: op.Panic + " @ " + op.PanicAt + " in " + op.Name,
				Detail:      op.String() + " at " + op.PanicAt,
			})
		}
	}
	return out
}

func dedupe(vs []Violation) []Violation {
	seen := map[string]bool{}
	var out []Violation
	for _, v := range vs {
		k := v.Clause + "|" + v.Fingerprint
		if seen[k] {
			continue
		}
		seen[k] = true
		out = append(out, v)
	}
	sort.SliceStable(out, func(i, j int) bool {
		if out[i].Clause != out[j].Clause {
			return out[i].Clause < out[j].Clause
		}
		return out[i].Fingerprint < out[j].Fingerprint
	})
	return out
}

func allDone(ths []*simrt.Thread) func() bool {
	return func() bool {
		for _, th := range ths {
			if !th.Done() {
				return false
			}
		}
		return true
	}
}

func errStr(e error) string {
	if e == nil {
		return ""
	}
	return e.Error()
}

var durTable = []time.Duration{
	time.Microsecond, 10 * time.Microsecond, 100 * time.Microsecond, time.Millisecond,
	3 * time.Millisecond, 10 * time.Millisecond, 50 * time.Millisecond, 300 * time.Millisecond,
}

func drawDur(t *simrt.Tape) time.Duration { return durTable[t.Choose(len(durTable))] }
