package harness

import (
	"fmt"
	"time"

	fpgo "github.com/TeaEntityLab/fpGo/v2"
	"verif.local/simrt"
)

// C11 — MonadIO is lazy, runs its effect once per evaluation, and obeys the monad laws.

func init() {
	register(&Property{
		ID:    "C11",
		Files: []string{"monadIO.go", "handler.go"},
		Funcs: []string{"MonadIODef", "MonadIO"},
		Gen:   genC11,
		Rule: "a composition tree over Just / New(effect) / FlatMap(f) of depth <= 4 generated from the scenario tape (every effect and every f logs id + thread); the tree is only built (log must stay empty), " +
			"Eval'ed 0..3 times, and Subscribed from 1..3 threads with each nil/non-nil combination of ObserveOn(h1)/SubscribeOn(h2) and with a Subscription without OnNext; a reference interpreter of the tree gives the " +
			"expected value and effect order; the three monad laws are checked as behavioural equalities on generated instances; non-trivial = a handler was involved with >=2 subscribers or >=2 evaluations of a tree with >=2 effects; " +
			"distinct = distinct context-switch signature" +
			" Probes: Eval with closed handlers configured, handler replacement after both handlers were the same, Just of a MonadIO, method-style constructors, re-configuration while subscriptions are in flight, one-shot handlers closed by the OnNext / the effect that runs on them.",
		Real:        []string{"fpgo.MonadIODef (Just, New, FlatMap, Eval, Subscribe, ObserveOn, SubscribeOn)", "fpgo.HandlerDef goroutines"},
		Stub:        []string{"goroutine scheduler", "effects / FlatMap functions (harness closures)"},
		Assumptions: []string{"laziness and the laws do not depend on the schedule; they are checked because the reference interpreter is needed anyway for routing and exactly-once under concurrent subscribers"},
	})
}

type c11Node struct {
	New   bool     `json:"new"` // New(effect) instead of Just
	ID    int      `json:"id"`
	C     int      `json:"c"`
	Chain []c11Fun `json:"chain,omitempty"`
}

type c11Fun struct {
	ID   int     `json:"id"`
	Body c11Node `json:"body"`
}

type c11Scenario struct {
	Tree     c11Node `json:"tree"`
	Evals    int     `json:"evals"`
	Subs     int     `json:"subscriber_threads"`
	Fresh    bool    `json:"handlers_first_used_by_subscribes,omitempty"`
	DefaultH bool    `json:"observe_on_default_handler,omitempty"`
	ObOn     bool    `json:"observe_on"`
	SubOn    bool    `json:"subscribe_on"`
	NoNext   bool    `json:"one_subscription_without_onnext"`
	Reconf   string  `json:"reconfigure_while_subscribed,omitempty"` // "", "subscribeOn-nil", "subscribeOn-h3", "observeOn-nil"
	ReconfD  int     `json:"reconfigure_delay_yields,omitempty"`
	LawSeed  int     `json:"law_seed"`

	probes map[string]int
	log    []c11Ev
	extra  []Violation
	h      *Hist
	nextID int
	h1, h2 int
	h3     int
	reconf *Op
	subOps []*Op
	onNext []c11Next
	evalOp []*Op
	subTID []int
	hung   bool
	builtN int
	saltN  int
}

type c11Ev struct {
	what   string
	thread int
	salt   int
}

type c11Next struct {
	val    int
	thread int
	sub    int
}

func genC11Node(t *simrt.Tape, depth int, id *int) c11Node {
	n := c11Node{New: t.Bool(1, 2), ID: *id, C: 1 + t.Choose(9)}
	*id++
	if depth <= 0 {
		return n
	}
	k := t.Choose(3)
	if depth >= 3 && t.Bool(1, 4) {
		k = 3 + t.Choose(10) // a long top-level chain of FlatMaps
	}
	for i := 0; i < k; i++ {
		f := c11Fun{ID: *id}
		*id++
		f.Body = genC11Node(t, depth-1-t.Choose(2), id)
		n.Chain = append(n.Chain, f)
	}
	return n
}

func genC11(t *simrt.Tape, tier string) Scenario {
	sc := &c11Scenario{probes: map[string]int{}}
	depth := 3
	if tier == "thorough" {
		depth = 4
	}
	id := 0
	sc.Tree = genC11Node(t, depth, &id)
	sc.nextID = id
	sc.Evals = t.Choose(4)
	sc.Subs = t.Choose(4)
	sc.ObOn = t.Bool(1, 2)
	sc.SubOn = t.Bool(1, 2)
	sc.NoNext = t.Bool(1, 4)
	sc.LawSeed = t.Choose(1000)
	if sc.Subs >= 1 && t.Bool(1, 3) {
		// the same MonadIO object is re-configured while subscriptions are in flight (what
		// Cor.YieldFromIO does with SubscribeOn(nil)): a subscription keeps the handlers it was made with
		sc.Reconf = []string{"subscribeOn-nil", "subscribeOn-h3", "observeOn-nil"}[t.Choose(3)]
		sc.ReconfD = t.Choose(8)
	}
	// the handlers are used for the first time by the concurrent Subscribes themselves (their goroutine
	// is identified afterwards), instead of being probed - and thereby warmed up - beforehand
	sc.Fresh = (sc.ObOn || sc.SubOn) && t.Bool(1, 3)
	sc.DefaultH = sc.ObOn && t.Bool(1, 6)
	return sc
}

func (sc *c11Scenario) Describe() interface{} { return sc }
func (sc *c11Scenario) Config() simrt.Config {
	return simrt.Config{Horizon: time.Hour, MaxSteps: 300000, NoStall: true}
}
func (sc *c11Scenario) Probes() map[string]int { return sc.probes }
func (sc *c11Scenario) Nontrivial(res *simrt.Result) bool {
	effects := len(c11Ref(sc.Tree, 0, nil))
	return ((sc.ObOn || sc.SubOn) && sc.Subs >= 2) || (sc.Evals+sc.Subs >= 2 && effects >= 2)
}

// c11Ref is the reference interpreter: value and effect order of one evaluation.
func c11RefVal(n c11Node, v0 int) int {
	val := v0 + n.C
	for _, f := range n.Chain {
		val = c11RefVal(f.Body, val)
	}
	return val
}

func c11Ref(n c11Node, v0 int, log []string) []string {
	val := v0 + n.C
	if n.New {
		log = append(log, fmt.Sprintf("e%d", n.ID))
	}
	for _, f := range n.Chain {
		log = append(log, fmt.Sprintf("f%d", f.ID))
		log = c11Ref(f.Body, val, log)
		val = c11RefVal(f.Body, val)
	}
	return log
}

func (sc *c11Scenario) build(s *simrt.Sim, n c11Node, v0 int) *fpgo.MonadIODef[int] {
	sc.builtN++
	var m *fpgo.MonadIODef[int]
	if n.New {
		mk := fpgo.MonadIONewGenerics[int]
		if n.ID%2 == 1 {
			mk = (&fpgo.MonadIODef[int]{}).New // method-style constructor
		}
		m = mk(func() int {
			// the value of an effect differs from invocation to invocation (a counter, a clock, an HTTP
			// response): what an evaluation delivers must be what THAT evaluation computed
			sc.saltN++
			salt := 1000 * sc.saltN
			sc.log = append(sc.log, c11Ev{fmt.Sprintf("e%d", n.ID), s.Self().ID, salt})
			s.Yield()
			return v0 + n.C + salt
		})
	} else {
		m = fpgo.MonadIOJustGenerics(v0 + n.C)
	}
	for _, f := range n.Chain {
		f := f
		m = m.FlatMap(func(v int) *fpgo.MonadIODef[int] {
			sc.log = append(sc.log, c11Ev{fmt.Sprintf("f%d", f.ID), s.Self().ID, 0})
			s.Yield()
			return sc.build(s, f.Body, v)
		})
	}
	return m
}

func (sc *c11Scenario) handlerTID(s *simrt.Sim, hd *fpgo.HandlerDef) int {
	tid, got := -1, false
	hd.Post(func() { tid = s.Self().ID; got = true })
	s.WaitUntilTimeout(func() bool { return got }, time.Minute)
	return tid
}

func (sc *c11Scenario) Run(s *simrt.Sim) {
	h := &Hist{S: s}
	sc.h = h
	// the library's default instances (default Handler/Actor and whatever else the package creates when it is loaded) are
	// re-created inside every simulation: code that falls back on them runs on simulated threads (see C12, C16)
	fpgo.SimReinit()
	add := func(clause, fp, detail string) {
		sc.extra = append(sc.extra, Violation{Clause: clause, Fingerprint: fp, Detail: detail})
	}
	// (a) building runs nothing
	m := sc.build(s, sc.Tree, 0)
	if len(sc.log) != 0 {
		add("lazy", "effect-ran-at-construction", fmt.Sprintf("building the composition ran %v", sc.log))
		sc.log = nil
	}
	want := c11RefVal(sc.Tree, 0)
	// (b) Eval n times
	for i := 0; i < sc.Evals; i++ {
		before := len(sc.log)
		op := h.Do("main", "Eval", i, func() (interface{}, error) { return m.Eval(), nil })
		sc.evalOp = append(sc.evalOp, op)
		w := want
		for _, e := range sc.log[before:] {
			w += e.salt
		}
		if op.Panic == "" && op.Val != w {
			add("value", "Eval-wrong-value", fmt.Sprintf("Eval #%d returned %v, this evaluation computed %d", i, op.Val, w))
		}
	}
	evalLog := sc.log
	sc.log = nil
	ref := c11Ref(sc.Tree, 0, nil)
	if !c11LogIsRepeats(evalLog, ref, sc.Evals, func(c11Ev) bool { return true }) {
		add("once-per-evaluation", "Eval-effect-log", fmt.Sprintf("%d Evals ran %v; one evaluation is %v", sc.Evals, c11Names(evalLog), ref))
	}
	// two compositions derived from the SAME parent are independent programs
	{
		fA := func(v int) *fpgo.MonadIODef[int] { return fpgo.MonadIOJustGenerics(v + 100000) }
		fB := func(v int) *fpgo.MonadIODef[int] { return fpgo.MonadIOJustGenerics(v + 200000) }
		a := m.FlatMap(fA)
		b := m.FlatMap(fB)
		for i, c := range []struct {
			io  *fpgo.MonadIODef[int]
			off int
			n   string
		}{{a, 100000, "a"}, {b, 200000, "b"}, {a, 100000, "a"}, {m, 0, "parent"}} {
			before := len(sc.log)
			op := h.Do("main", "Eval-sibling-"+c.n, i, func() (interface{}, error) { return c.io.Eval(), nil })
			w := want + c.off
			for _, e := range sc.log[before:] {
				w += e.salt
			}
			if op.Panic == "" && op.Val != w {
				add("value", "sibling-composition-wrong-value", fmt.Sprintf("p.FlatMap(fA) and p.FlatMap(fB) built from one parent: evaluating %q returned %v, want %d", c.n, op.Val, w))
			}
			if !c11LogIsRepeats(sc.log[before:], ref, 1, func(c11Ev) bool { return true }) {
				add("once-per-evaluation", "sibling-composition-effect-log", fmt.Sprintf("evaluating sibling %q ran %v; one evaluation of the parent is %v", c.n, c11Names(sc.log[before:]), ref))
			}
		}
		sc.log = nil
	}
	// laws (behavioural equalities on generated instances)
	sc.laws(s, add)
	// (c) Subscribe from several threads with handler routing
	var h1, h2 *fpgo.HandlerDef
	sc.h1, sc.h2 = -1, -1
	if sc.ObOn && sc.DefaultH {
		// the library's default Handler, re-created inside this simulation (see C12)
		fpgo.SimReinit()
		h1 = fpgo.Handler.GetDefault()
		if !sc.Fresh {
			sc.h1 = sc.handlerTID(s, h1)
		}
	} else if sc.ObOn {
		h1 = fpgo.Handler.New()
		if !sc.Fresh {
			sc.h1 = sc.handlerTID(s, h1)
		}
	}
	if sc.SubOn {
		h2 = fpgo.Handler.New()
		if !sc.Fresh {
			sc.h2 = sc.handlerTID(s, h2)
		}
	}
	m.ObserveOn(h1).SubscribeOn(h2)
	var ths []*simrt.Thread
	delivered := 0
	for i := 0; i < sc.Subs; i++ {
		i := i
		name := fmt.Sprintf("sub%d", i)
		sc.subTID = append(sc.subTID, -1)
		sc.subOps = append(sc.subOps, nil)
		ths = append(ths, s.Go(name, func() {
			sc.subTID[i] = s.Self().ID
			sc.subOps[i] = h.Do(name, "Subscribe", i, func() (interface{}, error) {
				m.Subscribe(fpgo.Subscription[int]{OnNext: func(v int) {
					sc.onNext = append(sc.onNext, c11Next{val: v, thread: s.Self().ID, sub: i})
					delivered++
				}})
				return nil, nil
			})
		}))
	}
	sc.h3 = -1
	if sc.Reconf != "" {
		var h3 *fpgo.HandlerDef
		if sc.Reconf == "subscribeOn-h3" {
			h3 = fpgo.Handler.New()
			sc.h3 = sc.handlerTID(s, h3)
		}
		ths = append(ths, s.Go("reconf", func() {
			for i := 0; i < sc.ReconfD; i++ {
				s.YieldHard()
			}
			sc.reconf = h.Do("reconf", sc.Reconf, nil, func() (interface{}, error) {
				switch sc.Reconf {
				case "subscribeOn-nil":
					m.SubscribeOn(nil)
				case "subscribeOn-h3":
					m.SubscribeOn(h3)
				case "observeOn-nil":
					m.ObserveOn(nil)
				}
				return nil, nil
			})
		}))
	}
	if sc.NoNext {
		ths = append(ths, s.Go("sub-nonext", func() {
			h.Do("sub-nonext", "SubscribeWithoutOnNext", nil, func() (interface{}, error) { m.Subscribe(fpgo.Subscription[int]{}); return nil, nil })
		}))
	}
	done := func() bool {
		for _, th := range ths {
			if !th.Done() {
				return false
			}
		}
		return delivered >= sc.Subs
	}
	if !s.WaitUntilTimeout(done, time.Minute) {
		s.SetFair(true)
		if !s.WaitUntilTimeout(done, 10*time.Minute) {
			sc.hung = true
		}
	}
	s.SetFair(true)
	s.Sleep(time.Second) // anything delivered twice would show up now
	if sc.Fresh {
		if h1 != nil {
			sc.h1 = sc.handlerTID(s, h1)
		}
		if h2 != nil {
			sc.h2 = sc.handlerTID(s, h2)
		}
	}
}

func c11Names(l []c11Ev) []string {
	var out []string
	for _, e := range l {
		out = append(out, e.what)
	}
	return out
}

// c11LogIsRepeats: the entries selected by sel are exactly n back-to-back copies of ref.
func c11LogIsRepeats(l []c11Ev, ref []string, n int, sel func(c11Ev) bool) bool {
	var names []string
	for _, e := range l {
		if sel(e) {
			names = append(names, e.what)
		}
	}
	if len(names) != n*len(ref) {
		return false
	}
	for i, w := range names {
		if w != ref[i%len(ref)] {
			return false
		}
	}
	return true
}

func (sc *c11Scenario) laws(s *simrt.Sim, add func(clause, fp, detail string)) {
	// method-style constructors of the utility instance (interface{} element type)
	{
		ran := 0
		j := fpgo.MonadIO.Just(41)
		n := fpgo.MonadIO.New(func() interface{} { ran++; return "n" })
		c := j.FlatMap(func(v interface{}) *fpgo.MonadIODef[interface{}] {
			return fpgo.MonadIO.New(func() interface{} { ran += 10; return fmt.Sprint(v, "+") })
		})
		if ran != 0 {
			add("lazy", "MonadIO.New-ran-at-construction", fmt.Sprintf("MonadIO.New/Just/FlatMap ran effects while composing (counter %d)", ran))
		}
		// a MonadIO is a value like any other: Just(inner) yields inner itself and runs nothing of it
		innerRan := 0
		inner := fpgo.MonadIO.New(func() interface{} { innerRan++; return "in" })
		wrapped := fpgo.MonadIO.Just(inner)
		if got := wrapped.Eval(); got != interface{}(inner) || innerRan != 0 || wrapped == inner {
			add("value", "Just-of-a-MonadIO", fmt.Sprintf("MonadIO.Just(inner).Eval() returned %T %v (want the inner MonadIO itself), inner's effect ran %d times (want 0), Just returned inner itself: %v", got, got, innerRan, wrapped == inner))
		}
		v1, v2, v3 := j.Eval(), n.Eval(), c.Eval()
		if v1 != 41 || v2 != "n" || v3 != "41+" || ran != 11 {
			add("value", "MonadIO-method-constructors", fmt.Sprintf("MonadIO.Just(41).Eval()=%v, MonadIO.New(..).Eval()=%v, Just(41).FlatMap(..).Eval()=%v, effect counter %d (want 41, n, 41+, 11)", v1, v2, v3, ran))
		}
	}
	// the two setters called at the same time from two goroutines both take effect
	{
		hA, hB := fpgo.Handler.New(), fpgo.Handler.New()
		tidA, tidB := sc.handlerTID(s, hA), sc.handlerTID(s, hB)
		effTID, nextTID := -1, -1
		mm := fpgo.MonadIONewGenerics(func() int { effTID = s.Self().ID; return 123 })
		t1 := s.Go("setter-observe", func() {
			sc.h.Do("setter-observe", "ObserveOn", nil, func() (interface{}, error) { mm.ObserveOn(hA); return nil, nil })
		})
		t2 := s.Go("setter-subscribe", func() {
			sc.h.Do("setter-subscribe", "SubscribeOn", nil, func() (interface{}, error) { mm.SubscribeOn(hB); return nil, nil })
		})
		s.WaitUntilTimeout(func() bool { return t1.Done() && t2.Done() }, time.Minute)
		got := false
		mm.Subscribe(fpgo.Subscription[int]{OnNext: func(v int) { nextTID = s.Self().ID; got = v == 123 }})
		if !s.WaitUntilTimeout(func() bool { return got }, 5*time.Minute) {
			add("handler-routing", "setters-called-concurrently:no-delivery", "ObserveOn(hA) and SubscribeOn(hB) called from two goroutines at once, then Subscribe: OnNext was not called with the value")
		} else if effTID != tidA || nextTID != tidB {
			add("handler-routing", "setters-called-concurrently", fmt.Sprintf("ObserveOn(hA) and SubscribeOn(hB) called from two goroutines at once, then Subscribe: effect on T%d (want hA = T%d), OnNext on T%d (want hB = T%d)", effTID, tidA, nextTID, tidB))
		}
		hA.Close()
		hB.Close()
	}
	// nil is a value like any other: Just(nil).FlatMap(f) is f(nil), and a nil produced in the middle of a chain
	// flows into the next step (interface-typed and pointer-typed monads)
	{
		calls := 0
		got := fpgo.MonadIO.Just(nil).FlatMap(func(v interface{}) *fpgo.MonadIODef[interface{}] {
			calls++
			return fpgo.MonadIO.Just(fmt.Sprintf("f(%v)", v))
		}).Eval()
		if got != "f(<nil>)" || calls != 1 {
			add("law", "left-identity-with-nil", fmt.Sprintf("Just(nil).FlatMap(f).Eval() = %v with f called %d times; f(nil).Eval() = f(<nil>)", got, calls))
		}
		// (first with a handler of its own, then - a new Just(nil) - without: two values are two objects)
		for _, withHandlers := range []bool{true, false} {
			nexts, gotNil := 0, false
			mn := fpgo.MonadIO.Just(nil)
			var hN *fpgo.HandlerDef
			if withHandlers {
				hN = fpgo.Handler.New()
				mn.ObserveOn(hN).SubscribeOn(nil)
			}
			mn.Subscribe(fpgo.Subscription[interface{}]{OnNext: func(v interface{}) { nexts++; gotNil = v == nil }})
			s.WaitUntilTimeout(func() bool { return nexts > 0 }, time.Minute)
			if nexts != 1 || !gotNil {
				add("once-per-evaluation", "Subscribe-of-a-nil-value", fmt.Sprintf("Just(nil).Subscribe (handlers: %v): OnNext called %d times (want once, with nil)", withHandlers, nexts))
			}
			if hN != nil {
				hN.Close()
			}
		}
		type box struct{ n int }
		steps := 0
		pm := fpgo.MonadIONewGenerics(func() *box { return nil }).
			FlatMap(func(b *box) *fpgo.MonadIODef[*box] {
				steps++
				if b == nil {
					return fpgo.MonadIOJustGenerics(&box{n: 7})
				}
				return fpgo.MonadIOJustGenerics(b)
			}).
			FlatMap(func(b *box) *fpgo.MonadIODef[*box] { steps += 10; return fpgo.MonadIOJustGenerics(b) })
		if r := pm.Eval(); r == nil || r.n != 7 || steps != 11 {
			add("once-per-evaluation", "nil-pointer-in-the-middle-of-a-chain", fmt.Sprintf("New(nil *box).FlatMap(fallback).FlatMap(id).Eval() = %v after %d step marks (want the fallback box 7, marks 11)", r, steps))
		}
	}
	// aliasing: the function given to FlatMap returns the very MonadIO it was bound to ("m; m") - the composition runs
	// m's effect twice per evaluation and yields the second value
	{
		n := 0
		var ma *fpgo.MonadIODef[int]
		ma = fpgo.MonadIONewGenerics(func() int { n++; return n * 10 })
		mm := ma.FlatMap(func(int) *fpgo.MonadIODef[int] { return ma })
		v1 := mm.Eval()
		n1 := n
		v2 := mm.FlatMap(func(v int) *fpgo.MonadIODef[int] { return fpgo.MonadIOJustGenerics(v + 1) }).Eval()
		if v1 != 20 || n1 != 2 || v2 != 41 || n != 4 {
			add("once-per-evaluation", "FlatMap-function-returning-its-own-source", fmt.Sprintf("m.FlatMap(func(_) { return m }).Eval() = %d after %d effect runs (want 20 after 2); followed by .FlatMap(+1).Eval() = %d after %d runs in total (want 41 after 4)", v1, n1, v2, n))
		}
	}
	// (a panicking effect / OnNext during Subscribe was tried here and withdrawn: what the library owes after a user callback panicked is not part of the property, DESIGN.md §9, 17)
	// the MonadIO a FlatMap function returns may carry handlers of its own (it was built for somebody who subscribes to it):
	// inside a composition it is just the next step - its effect runs once, in line, and its value is the composition's
	{
		hI := fpgo.Handler.New()
		innerRuns, innerTID, callerTID := 0, -1, -2
		comp := fpgo.MonadIOJustGenerics(20).FlatMap(func(v int) *fpgo.MonadIODef[int] {
			return fpgo.MonadIONewGenerics(func() int { innerRuns++; innerTID = s.Self().ID; s.Yield(); return v + 1 }).ObserveOn(hI).SubscribeOn(hI)
		})
		var eop *Op
		et := s.Go("eval-inner-with-handlers", func() {
			callerTID = s.Self().ID
			eop = sc.h.Do("eval-inner-with-handlers", "Eval", nil, func() (interface{}, error) { return comp.Eval(), nil })
		})
		if !s.WaitUntilTimeout(et.Done, 5*time.Minute) || eop == nil || eop.Panic != "" || eop.Val != 21 || innerRuns != 1 || innerTID != callerTID {
			v := interface{}(nil)
			if eop != nil {
				v = eop.Val
			}
			add("value", "FlatMap-function-returning-a-MonadIO-with-handlers", fmt.Sprintf("Just(20).FlatMap(v -> New(v+1).ObserveOn(h).SubscribeOn(h)).Eval() = %v (want 21), inner effect ran %d times (want 1) on T%d (evaluating thread T%d)", v, innerRuns, innerTID, callerTID))
		}
		hI.Close()
	}
	// re-entrancy: an OnNext that subscribes the same MonadIO again and re-configures it - every (nested) Subscribe
	// is an evaluation of its own: the effect and OnNext once per Subscribe
	{
		effs, nexts, depth := 0, 0, 0
		var mr *fpgo.MonadIODef[int]
		mr = fpgo.MonadIONewGenerics(func() int { effs++; return effs })
		var sub fpgo.Subscription[int]
		sub = fpgo.Subscription[int]{OnNext: func(v int) {
			nexts++
			if depth < 2 {
				depth++
				mr.Subscribe(sub)
			} else if depth == 2 {
				depth++
				mr.SubscribeOn(nil).ObserveOn(nil)
			}
		}}
		st := s.Go("reentrant-subscriber", func() {
			sc.h.Do("reentrant-subscriber", "Subscribe", nil, func() (interface{}, error) { mr.Subscribe(sub); return nil, nil })
		})
		ok := s.WaitUntilTimeout(st.Done, 5*time.Minute)
		if !ok || effs != 3 || nexts != 3 {
			add("once-per-evaluation", "Subscribe-from-inside-OnNext-of-the-same-MonadIO", fmt.Sprintf("OnNext subscribes the same MonadIO again (2 levels) and then calls its setters: outer Subscribe returned=%v, effect ran %d times, OnNext %d times (want 3 and 3)", ok, effs, nexts))
		}
	}
	// one-shot handlers: the OnNext (or the effect) closes the very handler it runs on - the step that the handler
	// had already taken still counts exactly once, and nothing of the chain moves to another goroutine
	for _, closer := range []string{"OnNext", "effect"} {
		hX := fpgo.Handler.New()
		tidX := sc.handlerTID(s, hX)
		if sc.LawSeed%2 == 0 {
			s.Go("one-shot-busy-"+closer, func() { hX.Post(func() { s.Yield(); s.Yield() }) }) // the looper may still be busy when the step is posted
		}
		effs, nexts, effTID, nextTID := 0, 0, -1, -1
		mx := fpgo.MonadIONewGenerics(func() int {
			effs++
			effTID = s.Self().ID
			if closer == "effect" {
				hX.Close()
			}
			return 31
		})
		if closer == "effect" {
			mx.ObserveOn(hX)
		} else {
			mx.SubscribeOn(hX)
		}
		st := s.Go("one-shot-"+closer, func() {
			sc.h.Do("one-shot-"+closer, "Subscribe", nil, func() (interface{}, error) {
				mx.Subscribe(fpgo.Subscription[int]{OnNext: func(v int) {
					nexts++
					nextTID = s.Self().ID
					if closer == "OnNext" {
						hX.Close()
					}
				}})
				return nil, nil
			})
		})
		ok := s.WaitUntilTimeout(func() bool { return st.Done() && nexts > 0 }, 5*time.Minute)
		for i := 0; i < 3; i++ {
			s.Yield()
		}
		wantEff := tidX
		if closer == "OnNext" {
			wantEff = effTID // the subscriber's own goroutine; not compared
		}
		if !ok || effs != 1 || nexts != 1 || nextTID != tidX || effTID != wantEff {
			add("once-per-evaluation", "handler-closed-by-its-own-"+closer, fmt.Sprintf("Subscribe whose %s closes the handler it runs on: effect ran %d times on T%d, OnNext %d times on T%d (want once each, OnNext on the handler T%d; delivered=%v)", closer, effs, effTID, nexts, nextTID, tidX, ok))
		}
		sc.probes["handler-closed-by-its-own-step"]++
	}
	// Eval is synchronous on the caller whatever handlers the MonadIO carries - also handlers that have been
	// closed meanwhile (fault: the handler is gone): the effect runs once, here, and the value comes back
	{
		ran, effTID := 0, -1
		me := fpgo.MonadIONewGenerics(func() int { ran++; effTID = s.Self().ID; return 7700 + sc.LawSeed })
		hc := fpgo.Handler.New()
		me.ObserveOn(hc).SubscribeOn(hc)
		hc.Close()
		var eop *Op
		callerTID := -2
		et := s.Go("eval-with-closed-handlers", func() {
			callerTID = s.Self().ID
			eop = sc.h.Do("eval-with-closed-handlers", "Eval", nil, func() (interface{}, error) { return me.Eval(), nil })
		})
		if !s.WaitUntilTimeout(et.Done, 5*time.Minute) {
			add("value", "Eval-with-closed-handlers-never-returns", fmt.Sprintf("Eval() of a MonadIO whose ObserveOn/SubscribeOn handler has been closed did not return (effect ran %d times)", ran))
		} else if eop != nil && eop.Panic == "" && (eop.Val != 7700+sc.LawSeed || ran != 1 || effTID != callerTID) {
			add("value", "Eval-with-closed-handlers", fmt.Sprintf("Eval() of a MonadIO whose handlers are closed returned %v (want %d), effect ran %d times (want 1) on thread T%d (caller T%d)", eop.Val, 7700+sc.LawSeed, ran, effTID, callerTID))
		}
	}
	// the setters are independent of their call order and of each other's earlier values: after
	// ObserveOn(hA).SubscribeOn(hA) followed by ObserveOn(hB) (or ObserveOn(nil)) the effect runs on hB's goroutine
	// (resp. on the subscriber's) and OnNext on hA's
	for _, second := range []string{"other-handler", "nil"} {
		hA, hB := fpgo.Handler.New(), fpgo.Handler.New()
		tidA, tidB := sc.handlerTID(s, hA), sc.handlerTID(s, hB)
		effTID, nextTID, callerTID := -1, -1, -2
		mm := fpgo.MonadIONewGenerics(func() int { effTID = s.Self().ID; return 99 })
		mm.ObserveOn(hA).SubscribeOn(hA)
		wantEff := tidB
		if second == "nil" {
			mm.ObserveOn(nil)
		} else {
			mm.ObserveOn(hB)
		}
		got := false
		st := s.Go("resubscriber-"+second, func() {
			callerTID = s.Self().ID
			sc.h.Do("resubscriber-"+second, "Subscribe", nil, func() (interface{}, error) {
				mm.Subscribe(fpgo.Subscription[int]{OnNext: func(v int) { nextTID = s.Self().ID; got = v == 99 }})
				return nil, nil
			})
		})
		ok := s.WaitUntilTimeout(func() bool { return st.Done() && got }, 5*time.Minute)
		if second == "nil" {
			wantEff = callerTID
		}
		if !ok {
			add("handler-routing", "observe-handler-replaced-after-both-were-the-same:no-delivery", fmt.Sprintf("ObserveOn(hA).SubscribeOn(hA), then ObserveOn(%s), then Subscribe: OnNext was not called with the value", second))
		} else if effTID != wantEff || nextTID != tidA {
			add("handler-routing", "observe-handler-replaced-after-both-were-the-same", fmt.Sprintf("ObserveOn(hA).SubscribeOn(hA), then ObserveOn(%s), then Subscribe: effect ran on T%d (want T%d), OnNext on T%d (want hA = T%d)", second, effTID, wantEff, nextTID, tidA))
		}
		hA.Close()
		hB.Close()
	}
	tp := simrt.NewGenTape(uint64(sc.LawSeed) + 77)
	id := 1000
	fBody := genC11Node(tp, 1, &id)
	gBody := genC11Node(tp, 1, &id)
	mNode := genC11Node(tp, 1, &id)
	x := 5 + sc.LawSeed%7
	f := func(v int) *fpgo.MonadIODef[int] { return sc.build(s, fBody, v) }
	g := func(v int) *fpgo.MonadIODef[int] { return sc.build(s, gBody, v) }
	run := func(mk func() *fpgo.MonadIODef[int]) (int, []string) {
		sc.log = nil
		v := mk().Eval()
		var effects []string
		for _, e := range sc.log {
			v -= e.salt // compare the laws modulo the per-invocation part of the effects' values
			if e.what[0] == 'e' {
				effects = append(effects, e.what)
			}
		}
		sc.log = nil
		return v, effects
	}
	same := func(law string, a, b func() *fpgo.MonadIODef[int]) {
		va, la := run(a)
		vb, lb := run(b)
		if va != vb || fmt.Sprint(la) != fmt.Sprint(lb) {
			add("law", law, fmt.Sprintf("%s: left side gives %d with effects %v, right side %d with effects %v", law, va, la, vb, lb))
		}
	}
	same("left-identity", func() *fpgo.MonadIODef[int] { return fpgo.MonadIOJustGenerics(x).FlatMap(f) }, func() *fpgo.MonadIODef[int] { return f(x) })
	same("right-identity", func() *fpgo.MonadIODef[int] {
		return sc.build(s, mNode, x).FlatMap(func(v int) *fpgo.MonadIODef[int] { return fpgo.MonadIOJustGenerics(v) })
	}, func() *fpgo.MonadIODef[int] { return sc.build(s, mNode, x) })
	same("associativity", func() *fpgo.MonadIODef[int] { return sc.build(s, mNode, x).FlatMap(f).FlatMap(g) }, func() *fpgo.MonadIODef[int] {
		return sc.build(s, mNode, x).FlatMap(func(v int) *fpgo.MonadIODef[int] { return f(v).FlatMap(g) })
	})
}

func (sc *c11Scenario) Check(res *simrt.Result) []Violation {
	var vs []Violation
	vs = append(vs, goroutinePanics(res)...)
	if sc.h == nil {
		return vs
	}
	vs = append(vs, opPanics(sc.h)...)
	vs = append(vs, sc.extra...)
	if sc.Fresh && sc.Subs >= 2 {
		sc.probes["handler-first-used-by-concurrent-subscribes"]++
	}
	mode := fmt.Sprintf("observeOn=%v,subscribeOn=%v", sc.ObOn, sc.SubOn)
	add := func(clause, fp, detail string) {
		vs = append(vs, Violation{Clause: clause, Fingerprint: fp, Detail: mode + ": " + detail})
	}
	if res.Reason != "done" || sc.hung {
		add("hang", "subscribers-pending", "reason "+res.Reason+"; pending: "+pendingOps(sc.h)+fmt.Sprintf("; OnNext calls %d of %d", len(sc.onNext), sc.Subs))
		return dedupe(vs)
	}
	ref := c11Ref(sc.Tree, 0, nil)
	want := c11RefVal(sc.Tree, 0)
	// which handlers was subscription i made with? (-2 = cannot tell: Subscribe overlapped the re-configuration)
	obOf := func(i int) int {
		ob := -1
		if sc.ObOn {
			ob = sc.h1
		}
		if sc.Reconf == "observeOn-nil" && sc.reconf != nil && sc.subOps[i] != nil {
			switch {
			case sc.subOps[i].Ret < sc.reconf.Inv:
			case sc.subOps[i].Inv > sc.reconf.Ret:
				ob = -1
			default:
				return -2
			}
		}
		return ob
	}
	subOf := func(i int) int {
		sb := -1
		if sc.SubOn {
			sb = sc.h2
		}
		if (sc.Reconf == "subscribeOn-nil" || sc.Reconf == "subscribeOn-h3") && sc.reconf != nil && sc.subOps[i] != nil {
			switch {
			case sc.subOps[i].Ret < sc.reconf.Inv:
			case sc.subOps[i].Inv > sc.reconf.Ret:
				sb = sc.h3
			default:
				return -2
			}
		}
		return sb
	}
	// effects of the Subscribe phase, grouped by thread
	threads := map[int]bool{}
	for _, e := range sc.log {
		threads[e.thread] = true
	}
	onHandler, unknown := 0, 0
	for i := range sc.subTID {
		switch obOf(i) {
		case -2:
			unknown++
		case -1:
			tid := sc.subTID[i]
			if !c11LogIsRepeats(sc.log, ref, 1, func(e c11Ev) bool { return e.thread == tid }) {
				add("once-per-evaluation", "Subscribe-effect-log", fmt.Sprintf("subscriber %d (T%d, no ObserveOn handler): effects %v; one evaluation is %v", i, tid, c11Names(sc.log), ref))
			}
			delete(threads, tid)
		default:
			onHandler++
		}
	}
	if unknown == 0 {
		if !c11LogIsRepeats(sc.log, ref, onHandler, func(e c11Ev) bool { return e.thread == sc.h1 }) {
			add("once-per-evaluation", "Subscribe-effect-log", fmt.Sprintf("%d Subscribes observed on the handler T%d ran %v there; one evaluation is %v", onHandler, sc.h1, c11Names(sc.log), ref))
		}
		delete(threads, sc.h1)
		for tid := range threads {
			add("routing", "effect-on-wrong-thread", fmt.Sprintf("an effect ran on T%d, which is neither the ObserveOn handler (T%d) of a subscription made with it nor the thread of a subscriber made without one", tid, sc.h1))
		}
	}
	// every evaluation computed its own value (want + the salts of its effects): the values delivered
	// to OnNext must be exactly those, each once
	expected := map[int]int{}
	if len(ref) > 0 {
		byThread := map[int][]c11Ev{}
		var order []int
		for _, e := range sc.log {
			if _, ok := byThread[e.thread]; !ok {
				order = append(order, e.thread)
			}
			byThread[e.thread] = append(byThread[e.thread], e)
		}
		for _, tid := range order {
			l := byThread[tid]
			for i := 0; i+len(ref) <= len(l); i += len(ref) {
				v := want
				for _, e := range l[i : i+len(ref)] {
					v += e.salt
				}
				expected[v]++
			}
		}
	} else {
		expected[want] = sc.Subs
	}
	gotVals := map[int]int{}
	for _, n := range sc.onNext {
		gotVals[n.val]++
	}
	if len(vs) == 0 {
		for v, n := range gotVals {
			if expected[v] < n {
				add("value", "OnNext-value-of-another-evaluation", fmt.Sprintf("OnNext delivered %d %d time(s) but the evaluations computed %v (each must be delivered exactly once); deliveries %v", v, n, expected, gotVals))
				break
			}
		}
	}
	perSub := map[int]int{}
	for _, n := range sc.onNext {
		perSub[n.sub]++
		ob, sb := obOf(n.sub), subOf(n.sub)
		if ob == -2 || sb == -2 {
			continue
		}
		wantT := sc.subTID[n.sub]
		if ob >= 0 {
			wantT = ob
		}
		if sb >= 0 {
			wantT = sb
		}
		if n.thread != wantT {
			add("routing", "OnNext-on-wrong-thread", fmt.Sprintf("OnNext of subscriber %d ran on T%d, expected T%d (handlers the subscription was made with: observeOn=T%d subscribeOn=T%d; -1 = none)", n.sub, n.thread, wantT, ob, sb))
		}
	}
	for i := 0; i < sc.Subs; i++ {
		if perSub[i] != 1 {
			add("once-per-evaluation", fmt.Sprintf("OnNext-%d-times", min3(perSub[i])), fmt.Sprintf("subscriber %d: OnNext called %d times", i, perSub[i]))
		}
	}
	return dedupe(vs)
}
