package harness

import (
	"fmt"
	"math"
	"sort"
	"time"

	fpgo "github.com/TeaEntityLab/fpGo/v2"
	"verif.local/simrt"
)

// C16 — PMap is Map run in parallel: same results, each element once, terminates.

func init() {
	register(&Property{
		ID:    "C16",
		Files: []string{"fp.go"},
		Funcs: []string{"PMap", "pMapPreserveOrder", "pMapNoOrder"},
		Gen:   genC16,
		Rule: "lists of length 0..8 (thorough 0..16) with unique elements (1 in 5: some elements occur twice) x option (nil, FixedPool in {-1,0,1,len-1,len,len+3,MaxInt,MaxInt/2,MinInt}) x RandomOrder; f logs begin, sleeps a data-dependent virtual duration " +
			"(including 'later elements finish first'), yields, logs end; PMap's producer/worker/closer goroutines are simulated threads; oracles: ordered result == Map, random result is a permutation, " +
			"f applied exactly once per element and to nothing else (an interface-typed instantiation whose f returns nil for some elements is run once more at the end), concurrency gauge <= min(FixedPool,len), PMap returns after the last application and within the horizon; f may call PMap itself (1 in 6; 1 run in 20000: a 1100-element list without pool option and such an f); " +
			"non-trivial = >=2 applications overlapped; distinct = distinct context-switch signature" +
			" Flavours: long lists with small pools and cheap f, further PMap calls (empty and non-empty, before and beside the main call) sharing the caller's option object.",
		Real: []string{"fpgo.PMap (pMapPreserveOrder, pMapNoOrder: producer, workers, closer goroutines, WaitGroup)"},
		Stub: []string{"goroutine scheduler", "clock", "the mapped function f"},
	})
}

type c16Extra struct {
	When string `json:"when"` // before | beside
	List []int  `json:"list"`
	op   *Op
}

type c16Scenario struct {
	List      []int           `json:"list"`
	HasOpt    bool            `json:"has_option"`
	FixedPool int             `json:"fixed_pool"`
	Random    bool            `json:"random_order"`
	Dups      bool            `json:"some_elements_twice,omitempty"`
	Nested    bool            `json:"f_calls_PMap_itself,omitempty"`
	Durs      []time.Duration `json:"durations"`
	NilF      bool            `json:"nil_function"`
	// further PMap calls made with the SAME option object (a caller-owned value PMap must treat as read-only):
	// before the main call on the caller's thread ("before"), or from a second thread at the same time ("beside")
	Extra []c16Extra `json:"extra_calls_sharing_the_option,omitempty"`

	h      *Hist
	probes map[string]int
	begins map[int][]uint64
	ends   map[int][]uint64
	op     *Op
	anyOp  *Op
	extra  []Violation
	hung   bool
}

func genC16(t *simrt.Tape, tier string) Scenario {
	sc := &c16Scenario{probes: map[string]int{}}
	maxLen := 8
	if tier == "thorough" {
		maxLen = 16
	}
	n := t.Choose(maxLen + 1)
	large := t.Bool(1, 8)
	if large {
		// long list, small pool, cheap f: one worker handles many items back to back
		n = 17 + t.Choose(40)
	}
	for i := 0; i < n; i++ {
		sc.List = append(sc.List, i*7) // (the first element is the zero value)
	}
	// shuffle lightly so that values are not monotone in the index
	for i := n - 1; i > 0; i-- {
		j := t.Choose(i + 1)
		sc.List[i], sc.List[j] = sc.List[j], sc.List[i]
	}
	if n >= 2 && t.Bool(1, 5) {
		// equal elements are elements like any other: f is applied once per position
		for k := 1 + t.Choose(2); k > 0; k-- {
			sc.List[t.Choose(n)] = sc.List[t.Choose(n)]
		}
		sc.Dups = true
	}
	sc.HasOpt = !t.Bool(1, 4)
	if sc.HasOpt {
		sc.FixedPool = []int{1, -1, 0, n - 1, n, n + 3, 2, 3, math.MaxInt, math.MaxInt / 2, math.MinInt}[t.Choose(11)]
		sc.Random = t.Bool(1, 2)
	}
	mode := t.Choose(4) // 0 equal, 1 decreasing (later finish first), 2 random, 3 zero
	if large {
		mode = 3
		if sc.HasOpt {
			sc.FixedPool = []int{3, 4, 6, 12}[t.Choose(4)]
		}
	}
	for i := 0; i < n; i++ {
		var d time.Duration
		switch mode {
		case 0:
			d = time.Millisecond
		case 1:
			d = time.Duration(n-i) * time.Millisecond
		case 2:
			d = time.Duration(t.Choose(6)) * 700 * time.Microsecond
		}
		sc.Durs = append(sc.Durs, d)
	}
	sc.NilF = t.Bool(1, 40)
	// f may itself call PMap (re-entrancy): the inner calls are calls like any other
	sc.Nested = t.Bool(1, 6)
	if t.Bool(1, 20000) {
		// rarely: a list far beyond any plausible internal limit, no pool option, re-entrant f
		sc.Nested, sc.HasOpt, sc.NilF = true, false, false
		sc.List, sc.Durs = nil, nil
		for i := 0; i < 1100; i++ {
			sc.List = append(sc.List, i*7)
			sc.Durs = append(sc.Durs, time.Millisecond)
		}
	}
	if sc.HasOpt && !sc.NilF && t.Bool(1, 3) {
		ne := 1 + t.Choose(3)
		for e := 0; e < ne; e++ {
			ex := c16Extra{When: []string{"before", "beside"}[t.Choose(2)]}
			m := []int{0, 0, 1, 2, 5, 9}[t.Choose(6)]
			for i := 0; i < m; i++ {
				ex.List = append(ex.List, 1000*(e+1)+i*3)
			}
			sc.Extra = append(sc.Extra, ex)
		}
	}
	return sc
}

func (sc *c16Scenario) Describe() interface{} { return sc }
func (sc *c16Scenario) Config() simrt.Config {
	return simrt.Config{Horizon: time.Hour, MaxSteps: 300000}
}
func (sc *c16Scenario) Probes() map[string]int { return sc.probes }
func (sc *c16Scenario) Nontrivial(res *simrt.Result) bool {
	return sc.probes["applications-overlapped"] > 0
}

func c16g(x int) int { return x*3 + 1 }

func (sc *c16Scenario) Run(s *simrt.Sim) {
	h := &Hist{S: s}
	sc.h = h
	// package-level state of the library (if any) is re-created inside every simulation, so that whatever PMap calls
	// share between each other is made of simulated channels (see C12's default Handler); every run does it, because
	// a channel made in an earlier simulation of this process must not be touched by a later one
	fpgo.SimReinit()
	sc.begins = map[int][]uint64{}
	sc.ends = map[int][]uint64{}
	durOf := map[int]time.Duration{}
	for i, x := range sc.List {
		durOf[x] = sc.Durs[i]
	}
	f := func(x int) int {
		sc.begins[x] = append(sc.begins[x], s.Stamp())
		s.Yield()
		if d := durOf[x]; d > 0 {
			s.Sleep(d)
		}
		if sc.Nested {
			if r := fpgo.PMap(func(v int) int { s.Yield(); return v + 1 }, nil, x, x+1); fmt.Sprint(r) != fmt.Sprint([]int{x + 1, x + 2}) {
				sc.extra = append(sc.extra, Violation{Clause: "result", Fingerprint: "nested:PMap-called-from-inside-f", Detail: fmt.Sprintf("PMap(+1, nil, %d, %d) called from inside f returned %v", x, x+1, r)})
			}
		}
		s.Yield()
		sc.ends[x] = append(sc.ends[x], s.Stamp())
		return c16g(x)
	}
	var opt *fpgo.PMapOption
	if sc.HasOpt {
		opt = &fpgo.PMapOption{FixedPool: sc.FixedPool, RandomOrder: sc.Random}
	}
	for i := range sc.Extra {
		for _, x := range sc.Extra[i].List {
			durOf[x] = 300 * time.Microsecond
		}
	}
	var beside *simrt.Thread
	for i := range sc.Extra {
		if sc.Extra[i].When == "beside" {
			beside = s.Go("caller2", func() {
				for i := range sc.Extra {
					if ex := &sc.Extra[i]; ex.When == "beside" {
						ex.op = h.Do("caller2", "PMap", ex.List, func() (interface{}, error) { return fpgo.PMap(f, opt, ex.List...), nil })
						s.Yield()
					}
				}
			})
			break
		}
	}
	th := s.Go("caller", func() {
		for i := range sc.Extra {
			if ex := &sc.Extra[i]; ex.When == "before" {
				ex.op = h.Do("caller", "PMap", ex.List, func() (interface{}, error) { return fpgo.PMap(f, opt, ex.List...), nil })
			}
		}
		sc.op = h.Do("caller", "PMap", nil, func() (interface{}, error) {
			if sc.NilF {
				return fpgo.PMap[int, int](nil, opt, sc.List...), nil
			}
			return fpgo.PMap(f, opt, sc.List...), nil
		})
	})
	done := func() bool { return th.Done() && (beside == nil || beside.Done()) }
	if !s.WaitUntilTimeout(done, time.Minute) {
		s.SetFair(true)
		if !s.WaitUntilTimeout(done, 20*time.Minute) {
			sc.hung = true
		}
	}
	if sc.hung || sc.NilF {
		return
	}
	// the result type may be an interface, and f may return nil for some elements: nil is a result like any other
	s.SetFair(true)
	th2 := s.Go("caller-any", func() {
		sc.anyOp = h.Do("caller-any", "PMap[int,interface{}]", nil, func() (interface{}, error) {
			return fpgo.PMap(func(x int) interface{} {
				s.Yield()
				if x%2 == 0 {
					return nil
				}
				return x
			}, opt, sc.List...), nil
		})
	})
	if !s.WaitUntilTimeout(th2.Done, 20*time.Minute) {
		sc.hung = true
	}
	// (an f that ends its goroutine with runtime.Goexit was tried here and withdrawn: DESIGN.md §9, 17)
}

func (sc *c16Scenario) Check(res *simrt.Result) []Violation {
	var vs []Violation
	vs = append(vs, goroutinePanics(res)...)
	if sc.h == nil {
		return vs
	}
	vs = append(vs, opPanics(sc.h)...)
	vs = append(vs, sc.extra...)
	mode := "ordered"
	if sc.HasOpt && sc.Random {
		mode = "random"
	}
	add := func(clause, fp, detail string) {
		vs = append(vs, Violation{Clause: clause, Fingerprint: mode + ":" + fp, Detail: detail})
	}
	for i := range sc.Extra {
		if ex := &sc.Extra[i]; ex.op == nil || !ex.op.Returned {
			sc.hung = true
		}
	}
	if res.Reason != "done" || sc.hung || sc.op == nil || !sc.op.Returned {
		add("termination", "pmap-did-not-return", fmt.Sprintf("PMap did not return (reason %s) for list %v pool=%d hasopt=%v", res.Reason, sc.List, sc.FixedPool, sc.HasOpt))
		return dedupe(vs)
	}
	if len(vs) > 0 {
		return dedupe(vs)
	}
	for i := range sc.Extra {
		ex := &sc.Extra[i]
		sc.probes["option-shared-by-several-calls"]++
		vs = append(vs, sc.checkCall(mode, "shared-option-call:", ex.List, nil, ex.op)...)
	}
	got, _ := sc.op.Val.([]int)
	if sc.NilF {
		if len(got) != 0 {
			add("result", "nil-function", fmt.Sprintf("PMap(nil, ...) returned %v", got))
		}
		return dedupe(vs)
	}
	vs = append(vs, sc.checkCall(mode, "", sc.List, sc.Durs, sc.op)...)
	if sc.anyOp != nil && sc.anyOp.Returned && sc.anyOp.Panic == "" {
		got, _ := sc.anyOp.Val.([]interface{})
		var a, b []string
		for _, x := range sc.List {
			if x%2 == 0 {
				b = append(b, "<nil>")
			} else {
				b = append(b, fmt.Sprint(x))
			}
		}
		for _, v := range got {
			a = append(a, fmt.Sprint(v))
		}
		if mode != "ordered" {
			sort.Strings(a)
			sort.Strings(b)
		}
		if fmt.Sprint(a) != fmt.Sprint(b) {
			add("result", "interface-typed-results-with-nils", fmt.Sprintf("PMap[int, interface{}] with f returning nil for even elements: got %v, want %v (%s) for list %v", a, b, mode, sc.List))
		}
	}
	inMain := map[int]bool{}
	for _, x := range sc.List {
		inMain[x] = true
	}
	for i := range sc.Extra {
		for _, x := range sc.Extra[i].List {
			inMain[x] = true
		}
	}
	for x := range sc.begins {
		if !inMain[x] {
			add("exactly-once", "applied-to-foreign-value", fmt.Sprintf("f applied to %d which is in no list", x))
		}
	}
	return dedupe(vs)
}

// checkCall evaluates the per-call clauses for one PMap call (its list, its result, the applications of f to its elements).
func (sc *c16Scenario) checkCall(mode, tag string, list []int, durs []time.Duration, op *Op) []Violation {
	var vs []Violation
	add := func(clause, fp, detail string) {
		vs = append(vs, Violation{Clause: clause, Fingerprint: mode + ":" + tag + fp, Detail: detail})
	}
	got, _ := op.Val.([]int)
	var want []int
	for _, x := range list {
		want = append(want, c16g(x))
	}
	ctx := fmt.Sprintf("list=%v pool=%d hasopt=%v random=%v durations=%v result=%v extra-calls=%+v", list, sc.FixedPool, sc.HasOpt, sc.Random, durs, got, sc.Extra)
	if mode == "ordered" {
		if fmt.Sprint(got) != fmt.Sprint(want) && !(len(got) == 0 && len(want) == 0) {
			add("result", "differs-from-Map", "want "+fmt.Sprint(want)+"; "+ctx)
		}
	} else {
		a := append([]int{}, got...)
		b := append([]int{}, want...)
		sort.Ints(a)
		sort.Ints(b)
		if fmt.Sprint(a) != fmt.Sprint(b) && !(len(a) == 0 && len(b) == 0) {
			add("result", "not-a-permutation-of-Map", "want a permutation of "+fmt.Sprint(want)+"; "+ctx)
		}
	}
	inList := map[int]bool{}
	type ev struct {
		at uint64
		d  int
	}
	var evs []ev
	var lastEnd uint64
	mult := map[int]int{}
	for _, x := range list {
		mult[x]++
	}
	for _, x := range list {
		if inList[x] {
			continue // an element value that occurs several times is judged once, against its multiplicity
		}
		inList[x] = true
		if n := len(sc.begins[x]); n != mult[x] {
			fp := fmt.Sprintf("applied-%d-times", min3(n))
			if mult[x] > 1 {
				fp = "element-occurring-several-times-not-applied-once-per-position"
			}
			add("exactly-once", fp, fmt.Sprintf("f applied %d times to element %d, which occurs %d times in the list; %s", n, x, mult[x], ctx))
		}
		for _, b := range sc.begins[x] {
			evs = append(evs, ev{b, +1})
		}
		for _, e := range sc.ends[x] {
			evs = append(evs, ev{e, -1})
			if e > lastEnd {
				lastEnd = e
			}
		}
		if len(sc.ends[x]) < len(sc.begins[x]) {
			add("termination", "returned-before-application-finished", fmt.Sprintf("PMap returned while f(%d) was still running; %s", x, ctx))
		}
	}
	if lastEnd > op.Ret {
		add("termination", "returned-before-last-application", "PMap returned before the last application of f finished; "+ctx)
	}
	sort.Slice(evs, func(i, j int) bool { return evs[i].at < evs[j].at })
	run, maxRun := 0, 0
	for _, e := range evs {
		run += e.d
		if run > maxRun {
			maxRun = run
		}
	}
	limit := len(list)
	if sc.HasOpt && sc.FixedPool > 0 && sc.FixedPool < limit {
		limit = sc.FixedPool
	}
	if maxRun > limit {
		add("concurrency", "more-goroutines-than-pool", fmt.Sprintf("%d applications ran at once, limit min(FixedPool,len)=%d; %s", maxRun, limit, ctx))
	}
	if maxRun >= 2 {
		sc.probes["applications-overlapped"]++
	}
	if maxRun == limit && limit >= 2 {
		sc.probes["pool-fully-used"]++
	}
	return vs
}

func min3(n int) int {
	if n > 2 {
		return 2
	}
	return n
}
