package harness

import (
	"fmt"
	"math"
	"reflect"
	"sort"
	"time"

	fpgo "github.com/TeaEntityLab/fpGo/v2"
	"github.com/TeaEntityLab/fpGo/v2/worker"
	"verif.local/simrt"
)

// C09 — WorkerPool: accepted job runs exactly once, <= max concurrent, panics isolated.

func init() {
	register(&Property{
		ID:    "C09",
		Files: []string{"worker/pool.go", "queue.go"},
		Funcs: []string{"DefaultWorkerPool", "DefaultInvokable", "NewDefaultWorkerPool", "NewDefaultInvokable"},
		Gen:   genC09,
		Rule: "real DefaultWorkerPool over a real BufferedChannelQueue (spawn loop, workers, loader, expiry/jam/retry timers on the fake clock); 1..3 submitter threads issue bursts/trickles of Schedule, " +
			"ScheduleWithTimeout, Invoke, InvokeWithTimeout; jobs are quick, slow (virtual sleep) or panicking (faults drawn from the tape); configurations drawn within the property's quantifier; " +
			"fair settle phase with the pool left open; oracles: rejected never runs, at-most-once, exactly-once by the fair horizon, gauge <= workerSizeMaximum, panic-handler log, error necessity, post-close error; " +
			"non-trivial = >=2 jobs accepted and (a job panicked or two jobs overlapped or a queue-full error was seen); distinct = distinct context-switch signature" +
			" Faults/flavours added later: panic handler replaced through SetPanicHandler while workers exist, a panic handler that blocks until the other jobs ran, batch and stand-by sizes retuned at run time, jobs that schedule children, Invokables re-targeted right after the call, sibling pool, four construction paths.",
		Real: []string{"worker.DefaultWorkerPool (spawnLoop, trySpawn, workers)", "worker.DefaultInvokable", "fpgo.BufferedChannelQueue job queue", "timers on the fake clock"},
		Stub: []string{"goroutine scheduler", "clock", "sync.Pool", "job bodies (harness closures)"},
	})
}

type c09Job struct {
	Kind string        `json:"kind"` // quick | slow | panic
	D    time.Duration `json:"d,omitempty"`
}

type c09Sub struct {
	Via      string        `json:"via"` // Schedule | ScheduleWithTimeout | Invoke | InvokeWithTimeout
	NilFirst bool          `json:"a_nil_job_is_scheduled_right_before,omitempty"`
	Job      c09Job        `json:"job"`
	T        time.Duration `json:"timeout,omitempty"`
	Pause    time.Duration `json:"pause,omitempty"`
}

type c09Scenario struct {
	Unit              time.Duration
	Cap, BufMax, Hook int
	LoadDur           time.Duration
	Max, StandBy      int
	Batch             int
	SpawnDur          time.Duration
	ExpiryDur         time.Duration
	JamDur            time.Duration
	RetryDur          time.Duration
	PreAlloc          int
	NilHandler        bool   `json:"nil_panic_handler,omitempty"`
	ReHandler         int    `json:"panic_handler_replaced,omitempty"` // 1: after the first workers exist, before any submission; 2: by a thread while the pool works
	SlowHandler       bool   `json:"first_panic_handler_call_blocks_until_the_other_jobs_ran,omitempty"`
	Retune            []int  `json:"batch_size_set_at_run_time,omitempty"`
	RetuneStandBy     []int  `json:"stand_by_size_set_at_run_time,omitempty"` // values in 1..Max (inside the quantifier)
	Ctor              string `json:"pool_construction"`                       // setters | settings-struct | set-settings-struct | set-job-queue
	InvSetters        bool   `json:"invokable_built_with_setters,omitempty"`
	KeepQueueOpen     bool
	Sibling           bool
	Submitters        [][]c09Sub

	h            *Hist
	probes       map[string]int
	jobs         []*c09JobRec
	handler      []c09Handled
	stranded     bool
	handlerWait  func(val string)
	stalledInfo  string
	decoyRan     []int // values a callee ran with that was installed on an Invokable only AFTER the Invoke call
	strandedInfo string
	settleAt     uint64
	closeAt      uint64
	rehandledAt  uint64 // stamp at which SetPanicHandler(second handler) returned
}

type c09JobRec struct {
	id       int
	spec     c09Job
	sub      *Op
	starts   []uint64
	ends     []uint64
	panicVal string
}

type c09Handled struct {
	at  uint64
	val string
	gen int // which installed handler received it (1: the one installed at construction, 2: its replacement)
}

// All durations of a run are small multiples of one per-run time unit, so that the periodic
// timers of the pool (idle expiry, loader, spawn loop) fire a bounded number of times per run.
var c09Mult = []int{2, 1, 4, 10, 20, 50} // halves of the unit

func c09Dur(t *simrt.Tape, unit time.Duration) time.Duration {
	return unit * time.Duration(c09Mult[t.Choose(len(c09Mult))]) / 2
}

func genC09(t *simrt.Tape, tier string) Scenario {
	sc := &c09Scenario{probes: map[string]int{}}
	sc.Cap = []int{1, 2, 3, 5}[t.Choose(4)]
	sc.BufMax = []int{3, 0, 1, 100}[t.Choose(4)]
	sc.Hook = t.Choose(3)
	sc.Unit = []time.Duration{time.Millisecond, 100 * time.Microsecond, 10 * time.Millisecond, 100 * time.Millisecond}[t.Choose(4)]
	sc.LoadDur = c09Dur(t, sc.Unit)
	sc.Max = 1 + t.Choose(5)
	if t.Bool(1, 5) {
		// standby 0 with batch >= 1 and an idle expiry longer than the run
		sc.StandBy = 0
		sc.Batch = []int{1, 2, 3, math.MaxInt}[t.Choose(4)] // MaxInt: one worker whatever the backlog
		sc.ExpiryDur = 100 * time.Hour
	} else {
		sc.StandBy = 1 + t.Choose(sc.Max)
		sc.Batch = []int{0, 1, 2, 3, math.MaxInt}[t.Choose(5)]
		sc.ExpiryDur = c09Dur(t, sc.Unit)
	}
	sc.SpawnDur = c09Dur(t, sc.Unit)
	sc.JamDur = c09Dur(t, sc.Unit)
	sc.RetryDur = c09Dur(t, sc.Unit)
	if t.Bool(1, 5) {
		sc.PreAlloc = 1 + t.Choose(sc.Max+1)
	}
	sc.KeepQueueOpen = t.Bool(1, 3)
	sc.Sibling = t.Bool(1, 4)
	// SetPanicHandler(nil): panics are swallowed silently, everything else must stay the same
	sc.NilHandler = t.Bool(1, 5)
	if !sc.NilHandler && sc.Max >= 2 && sc.StandBy >= 2 && t.Bool(1, 3) {
		// fault: the user's panic handler is slow - its first invocation does not return before every other accepted
		// job has run (bounded by the fair horizon). A second stand-by worker exists, so the pool can go on.
		sc.SlowHandler = true
	}
	if !sc.NilHandler && t.Bool(1, 4) {
		// the handler is replaced through SetPanicHandler after workers have been created
		sc.ReHandler = 1 + t.Choose(2)
	}
	// how the pool gets its configuration: setters after NewDefaultWorkerPool(q, nil); a settings struct
	// (copied from a configured template pool) passed to the constructor or to SetDefaultWorkerPoolSettings;
	// or a pool created on a placeholder queue that gets its real queue through SetJobQueue
	sc.Ctor = []string{"setters", "settings-struct", "set-settings-struct", "set-job-queue"}[t.ChooseW([]int{3, 1, 1, 1})]
	sc.InvSetters = t.Bool(1, 3)
	if sc.StandBy >= 1 && t.Bool(1, 4) {
		// the batch size (any value is within the quantifier while stand-by >= 1) is changed through its
		// setter while the pool is working
		n := 1 + t.Choose(6)
		for i := 0; i < n; i++ {
			sc.Retune = append(sc.Retune, []int{0, 1, 3, 0, 2}[t.Choose(5)])
		}
		if t.Bool(1, 2) && !sc.SlowHandler { // (the slow-handler fault relies on a second stand-by worker)
			for i := 0; i < n; i++ {
				sc.RetuneStandBy = append(sc.RetuneStandBy, 1+t.Choose(sc.Max))
			}
		}
	}
	maxSub, maxJobs := 2, 6
	if tier == "thorough" {
		maxSub, maxJobs = 3, 12
	}
	ns := 1 + t.Choose(maxSub)
	for i := 0; i < ns; i++ {
		n := 1 + t.Choose(maxJobs)
		var subs []c09Sub
		for k := 0; k < n; k++ {
			sb := c09Sub{Via: []string{"Schedule", "Schedule", "ScheduleWithTimeout", "Invoke", "InvokeWithTimeout"}[t.Choose(5)]}
			switch t.ChooseW([]int{5, 3, 2, 1}) {
			case 3:
				sb.Job.Kind = "spawn" // the job schedules a child job on the same pool
			case 0:
				sb.Job.Kind = "quick"
			case 1:
				sb.Job.Kind = "slow"
				sb.Job.D = c09Dur(t, sc.Unit)
			case 2:
				sb.Job.Kind = "panic"
			}
			if sb.Via == "Invoke" && sb.Job.Kind == "spawn" {
				// Invoke has no result: the harness cannot know whether (and wait until) the job was
				// accepted and ran, so a child scheduled by it could arrive after the settle phase
				sb.Job.Kind = "quick"
			}
			if sb.Via == "ScheduleWithTimeout" || sb.Via == "InvokeWithTimeout" {
				sb.T = c09Dur(t, sc.Unit)
				if t.Bool(1, 6) {
					sb.T = []time.Duration{0, -time.Millisecond, time.Nanosecond}[t.Choose(3)] // no patience at all
				}
			}
			if t.Bool(1, 4) {
				sb.Pause = c09Dur(t, sc.Unit)
			}
			sb.NilFirst = t.Bool(1, 10)
			subs = append(subs, sb)
		}
		sc.Submitters = append(sc.Submitters, subs)
	}
	return sc
}

func (sc *c09Scenario) Describe() interface{} { return sc }
func (sc *c09Scenario) Config() simrt.Config {
	return simrt.Config{Horizon: 10 * time.Hour, MaxSteps: 400000}
}
func (sc *c09Scenario) Probes() map[string]int { return sc.probes }

func (sc *c09Scenario) Run(s *simrt.Sim) {
	h := &Hist{S: s}
	sc.h = h
	q := fpgo.NewBufferedChannelQueue[func()](sc.Cap, sc.BufMax, sc.Hook)
	q.SetLoadFromPoolDuration(sc.LoadDur)
	var pool *worker.DefaultWorkerPool
	// The settings struct has unexported fields, so the pool can only be configured through its
	// setters after construction. The configuration is applied as one step: otherwise the spawn loop
	// could create workers under the default settings (stand-by 5, maximum 1000, expiry 5s) that are
	// outside the configuration this run is about.
	configure := func(p *worker.DefaultWorkerPool) {
		p.SetPanicHandler(func(v interface{}) {
			sc.handler = append(sc.handler, c09Handled{at: s.Stamp(), val: fmt.Sprint(v), gen: 1})
			if sc.handlerWait != nil {
				sc.handlerWait(fmt.Sprint(v))
			}
		})
		if sc.NilHandler {
			p.SetPanicHandler(nil)
		}
		p.SetWorkerSizeMaximum(sc.Max).SetWorkerSizeStandBy(sc.StandBy).SetWorkerBatchSize(sc.Batch).
			SetSpawnWorkerDuration(sc.SpawnDur).SetWorkerExpiryDuration(sc.ExpiryDur).SetWorkerJamDuration(sc.JamDur).SetScheduleRetryInterval(sc.RetryDur)
		if sc.KeepQueueOpen {
			p.SetIsJobQueueClosedWhenClose(false)
		}
	}
	s.NoPreempt(func() {
		switch sc.Ctor {
		case "settings-struct", "set-settings-struct":
			// a template pool on its own queue is configured and closed at once; its settings value is
			// what the pool under test is built from
			tq := fpgo.NewBufferedChannelQueue[func()](1, 1, 1)
			tmpl := worker.NewDefaultWorkerPool(tq, nil)
			configure(tmpl)
			st := c09SettingsOf(tmpl)
			tmpl.SetIsJobQueueClosedWhenClose(true)
			tmpl.Close()
			if sc.Ctor == "settings-struct" {
				pool = worker.NewDefaultWorkerPool(q, &st)
			} else {
				pool = worker.NewDefaultWorkerPool(q, nil)
				pool.SetDefaultWorkerPoolSettings(st)
			}
		case "set-job-queue":
			q0 := fpgo.NewBufferedChannelQueue[func()](1, 1, 1)
			pool = worker.NewDefaultWorkerPool(q0, nil)
			pool.SetJobQueue(q)
			configure(pool)
			q0.Close()
		default:
			pool = worker.NewDefaultWorkerPool(q, nil)
			configure(pool)
		}
	})
	if sc.Sibling {
		// a second, unrelated pool (also created with nil settings) configured very differently: what
		// is configured on one pool must not leak into the other
		s.NoPreempt(func() {
			q2 := fpgo.NewBufferedChannelQueue[func()](2, 10, 1)
			sib := worker.NewDefaultWorkerPool(q2, nil)
			sib.SetPanicHandler(func(v interface{}) {
				sc.handler = append(sc.handler, c09Handled{at: s.Stamp(), val: "SIBLING-HANDLER:" + fmt.Sprint(v)})
			})
			sib.SetWorkerSizeMaximum(50).SetWorkerSizeStandBy(2).SetWorkerBatchSize(1).SetSpawnWorkerDuration(3 * sc.Unit).
				SetWorkerExpiryDuration(700 * sc.Unit).SetWorkerJamDuration(9 * sc.Unit).SetScheduleRetryInterval(2 * sc.Unit)
		})
	}
	if sc.PreAlloc > 0 {
		pool.PreAllocWorkerSize(sc.PreAlloc)
	}
	rehandle := func(who string) {
		h.Do(who, "SetPanicHandler", 2, func() (interface{}, error) {
			pool.SetPanicHandler(func(v interface{}) {
				sc.handler = append(sc.handler, c09Handled{at: s.Stamp(), val: fmt.Sprint(v), gen: 2})
				if sc.handlerWait != nil {
					sc.handlerWait(fmt.Sprint(v))
				}
			})
			return nil, nil
		})
		sc.rehandledAt = s.Stamp()
	}
	if sc.ReHandler == 1 {
		// let the spawn loop create the stand-by workers under the first handler
		s.Sleep(3*sc.SpawnDur + sc.Unit)
		rehandle("main")
	}
	var mkJob func(spec c09Job) (*c09JobRec, func())
	mkJob = func(spec c09Job) (*c09JobRec, func()) {
		rec := &c09JobRec{id: len(sc.jobs), spec: spec}
		sc.jobs = append(sc.jobs, rec)
		return rec, func() {
			rec.starts = append(rec.starts, s.Stamp())
			s.Event("job-start", fmt.Sprintf("job %d (%s)", rec.id, spec.Kind))
			s.Yield()
			if spec.Kind == "slow" {
				s.Fault("slow-job")
				s.Sleep(spec.D)
			}
			if spec.Kind == "spawn" {
				// submission from inside a running job (a worker thread is the submitter)
				child, cjob := mkJob(c09Job{Kind: "quick"})
				child.sub = h.Do(fmt.Sprintf("job%d", rec.id), "Schedule", child.id, func() (interface{}, error) { return nil, pool.Schedule(cjob) })
				sc.probes["job-scheduled-a-child"]++
			}
			s.Yield()
			rec.ends = append(rec.ends, s.Stamp())
			if spec.Kind == "panic" {
				s.Fault("job-panics")
				rec.panicVal = fmt.Sprintf("job-%d-panic", rec.id)
				panic(rec.panicVal)
			}
		}
	}
	var ths []*simrt.Thread
	for i, subs := range sc.Submitters {
		subs := subs
		name := fmt.Sprintf("sub%d", i)
		ths = append(ths, s.Go(name, func() {
			for _, sb := range subs {
				sb := sb
				if sb.NilFirst {
					// a nil job right in front of the real one: nothing to run for it, and it must not disturb the
					// jobs queued behind it
					nrec, _ := mkJob(c09Job{Kind: "nil"})
					nrec.sub = h.Do(name, "Schedule(nil)", nrec.id, func() (interface{}, error) { return nil, pool.Schedule(nil) })
					sc.probes["nil-job-scheduled"]++
				}
				rec, job := mkJob(sb.Job)
				switch sb.Via {
				case "Schedule":
					rec.sub = h.Do(name, "Schedule", rec.id, func() (interface{}, error) { return nil, pool.Schedule(job) })
				case "ScheduleWithTimeout":
					rec.sub = h.Do(name, "ScheduleWithTimeout", rec.id, func() (interface{}, error) { return sb.T, pool.ScheduleWithTimeout(job, sb.T) })
				case "Invoke":
					inv := worker.NewDefaultInvokable[int](pool, func(int) { job() })
					if sc.InvSetters {
						inv = worker.NewDefaultInvokable[int](nil, nil).SetWorkerPool(pool).SetCallee(func(int) { job() })
					}
					rec.sub = h.Do(name, "Invoke", rec.id, func() (interface{}, error) { inv.Invoke(rec.id); return nil, nil })
					// the Invokable object is re-targeted right away (it is reused for something else): the job that
					// was submitted is still the old callee applied to the old value
					inv.SetCallee(func(v int) { sc.decoyRan = append(sc.decoyRan, v) })
				case "InvokeWithTimeout":
					inv := worker.NewDefaultInvokable[int](pool, func(int) { job() })
					rec.sub = h.Do(name, "InvokeWithTimeout", rec.id, func() (interface{}, error) { return sb.T, inv.InvokeWithTimeout(rec.id, sb.T) })
					inv.SetCallee(func(v int) { sc.decoyRan = append(sc.decoyRan, v) })
				}
				if sb.Pause > 0 {
					s.Sleep(sb.Pause)
				} else {
					s.Yield()
				}
			}
		}))
	}
	if len(sc.Retune) > 0 {
		ths = append(ths, s.Go("retuner", func() {
			for i, b := range sc.Retune {
				b := b
				if i < len(sc.RetuneStandBy) {
					sb := sc.RetuneStandBy[i]
					h.Do("retuner", "SetWorkerSizeStandBy", sb, func() (interface{}, error) { pool.SetWorkerSizeStandBy(sb); return nil, nil })
				}
				h.Do("retuner", "SetWorkerBatchSize", b, func() (interface{}, error) { pool.SetWorkerBatchSize(b); return nil, nil })
				s.Sleep(sc.Unit / 4)
			}
			if len(sc.RetuneStandBy) > 0 {
				h.Do("retuner", "SetWorkerSizeStandBy", sc.StandBy, func() (interface{}, error) { pool.SetWorkerSizeStandBy(sc.StandBy); return nil, nil })
			}
			h.Do("retuner", "SetWorkerBatchSize", sc.Batch, func() (interface{}, error) { pool.SetWorkerBatchSize(sc.Batch); return nil, nil })
		}))
	}
	if sc.ReHandler == 2 {
		ths = append(ths, s.Go("rehandler", func() {
			s.Sleep(sc.Unit)
			rehandle("rehandler")
		}))
	}
	if sc.SlowHandler {
		first := true
		submitters := allDone(ths)
		sc.handlerWait = func(val string) {
			if !first {
				return
			}
			first = false
			othersRan := func() bool {
				if !submitters() {
					return false
				}
				for _, j := range sc.jobs {
					if j.sub == nil || !j.sub.Returned {
						return false
					}
					if j.panicVal == val {
						continue
					}
					if j.sub.Name != "Invoke" && j.spec.Kind != "nil" && j.sub.Err == nil && j.sub.Panic == "" && len(j.ends) == 0 {
						return false
					}
				}
				return true
			}
			sc.probes["panic-handler-blocked-while-others-run"]++
			s.Fault("panic-handler-blocks")
			// no deadline of its own (an injected stall would make any virtual-time deadline meaningless): if the pool
			// cannot go on while this handler runs, the settle phase's fair horizon expires and the run is judged there
			sc.stalledInfo = fmt.Sprintf("the panic handler (handling %q) was still waiting for the other accepted jobs to run; max=%d standby=%d", val, sc.Max, sc.StandBy)
			s.WaitUntil(othersRan)
			sc.stalledInfo = ""
		}
	}
	s.WaitUntilTimeout(allDone(ths), 10*time.Minute)
	// settle: pool left open, fair scheduling, no further submission
	s.SetFair(true)
	sc.settleAt = s.Stamp()
	allRan := func() bool {
		for _, th := range ths {
			if !th.Done() {
				return false
			}
		}
		for _, j := range sc.jobs {
			if j.sub == nil || !j.sub.Returned {
				return false
			}
			if j.sub.Name != "Invoke" && j.spec.Kind != "nil" && j.sub.Err == nil && j.sub.Panic == "" && len(j.ends) == 0 {
				return false
			}
		}
		return true
	}
	// fair horizon: far above any legal latency (every configured interval is <= 25 units)
	horizon := 2000 * sc.Unit
	for _, j := range sc.jobs {
		horizon += 4 * j.spec.D
	}
	if !s.WaitUntilTimeout(allRan, horizon) {
		sc.stranded = true
		sc.strandedInfo = fmt.Sprintf("job queue Count()=%d, channel length=%d, at t=%v", q.Count(), len(q.GetChannel()), s.Now())
	}
	// give in-flight Invoke jobs and panic handlers time to finish
	s.Sleep(60 * sc.Unit)
	sc.closeAt = s.Stamp() // what happens from here on is C15's subject (shutdown), not C09's
	h.Do("main", "Close", nil, func() (interface{}, error) { pool.Close(); return nil, nil })
	_, late := mkJob(c09Job{Kind: "quick"})
	sc.jobs[len(sc.jobs)-1].sub = h.Do("main", "ScheduleAfterClose", len(sc.jobs)-1, func() (interface{}, error) { return nil, pool.Schedule(late) })
	s.Sleep(30 * sc.Unit)
}

func (sc *c09Scenario) Nontrivial(res *simrt.Result) bool {
	return sc.probes["accepted>=2"] > 0 && (sc.probes["job-panicked"] > 0 || sc.probes["jobs-overlapped"] > 0 || sc.probes["queue-full-seen"] > 0)
}

func (sc *c09Scenario) Check(res *simrt.Result) []Violation {
	var vs []Violation
	vs = append(vs, goroutinePanics(res)...)
	if sc.h == nil {
		return vs
	}
	h := sc.h
	vs = append(vs, opPanics(h)...)
	add := func(clause, fp, detail string) {
		vs = append(vs, Violation{Clause: clause, Fingerprint: fp, Detail: detail})
	}
	if res.Reason != "done" {
		add("hang", "run-did-not-finish", "run ended with reason "+res.Reason+"; pending: "+pendingOps(h))
		return dedupe(vs)
	}
	desc := func(j *c09JobRec) string {
		sub := "?"
		if j.sub != nil {
			sub = j.sub.String()
		}
		return fmt.Sprintf("job %d (%s) submitted by %s, starts=%v ends=%v", j.id, j.spec.Kind, sub, j.starts, j.ends)
	}
	accepted := 0
	need := sc.BufMax
	if sc.BufMax <= 0 {
		need = sc.Cap
	}
	type ev struct {
		at uint64
		d  int
	}
	var evs []ev
	for _, j := range sc.jobs {
		if j.sub == nil || j.spec.Kind == "nil" {
			continue // (a nil job has nothing to run; it only occupies a queue slot for the capacity reasoning below)
		}
		// (ii) at most once
		if len(j.starts) > 1 {
			add("at-most-once", "job-ran-twice", desc(j))
		}
		for _, st := range j.starts {
			evs = append(evs, ev{st, +1})
		}
		for _, e := range j.ends {
			evs = append(evs, ev{e, -1})
		}
		if !j.sub.Returned || j.sub.Panic != "" {
			continue
		}
		if j.spec.Kind == "panic" && len(j.starts) > 0 {
			sc.probes["job-panicked"]++
		}
		if T, timed := j.sub.Val.(time.Duration); timed && (j.sub.Name == "ScheduleWithTimeout" || j.sub.Name == "InvokeWithTimeout") && res.Faults["stall"] == 0 {
			// whatever its outcome, a call with a timeout is over one retry interval after the deadline at the latest
			// (stall-free runs only: virtual time passes only while every thread is blocked, so a late return is the
			// caller's own doing; an injected stall may legitimately delay it)
			eff := time.Duration(0)
			if T > 0 {
				eff = sc.RetryDur
				if eff > T/3 {
					eff = T / 3
				}
			} else {
				T = 0
			}
			if d := j.sub.TRet - j.sub.TInv; d > T+eff+time.Microsecond {
				add("timeout", "returns-long-after-the-timeout", fmt.Sprintf("%s took %v of virtual time in a stall-free run; timeout %v, retry interval %v", j.sub.String(), d, T, sc.RetryDur))
			}
			sc.probes["timed-call-checked-against-its-deadline"]++
		}
		rejected := j.sub.Err != nil
		if rejected {
			// (i) a rejected job never runs
			if len(j.starts) > 0 {
				add("rejected-ran", j.sub.Name+":"+j.sub.Err.Error(), desc(j))
			}
			switch j.sub.Err {
			case worker.ErrWorkerPoolJobQueueIsFull, worker.ErrWorkerPoolScheduleTimeout:
				sc.probes["queue-full-seen"]++
				if j.sub.Err == worker.ErrWorkerPoolScheduleTimeout {
					if d := j.sub.Val.(time.Duration); j.sub.TRet-j.sub.TInv < d {
						add("timeout", "early-schedule-timeout", fmt.Sprintf("%s after only %v", j.sub.String(), j.sub.TRet-j.sub.TInv))
					}
				} else if j.sub.Name != "Schedule" {
					add("unexpected-error", j.sub.Name+":queue-full", j.sub.String()+" (the WithTimeout variants retry until the timeout)")
				}
				// necessity: how many jobs can possibly be inside the queue during the call
				maxIn := 0
				for _, o := range sc.jobs {
					if o == j || o.sub == nil || o.sub.Name == "ScheduleAfterClose" {
						continue
					}
					if o.sub.Inv < j.sub.Ret && (!o.sub.Returned || o.sub.Err == nil) {
						if len(o.starts) == 0 || o.starts[0] > j.sub.Inv {
							maxIn++
						}
					}
				}
				if maxIn < need {
					add("error-necessity", "full-while-not-full", fmt.Sprintf("%s although at most %d jobs can be queued (needs >= %d); capacity %d buffer %d", j.sub.String(), maxIn, need, sc.Cap, sc.BufMax))
				}
			case worker.ErrWorkerPoolIsClosed:
				if j.sub.Name != "ScheduleAfterClose" {
					add("unexpected-error", j.sub.Name+":closed", j.sub.String()+" on an open pool")
				}
			default:
				add("unexpected-error", j.sub.Name+":"+j.sub.Err.Error(), j.sub.String())
			}
			continue
		}
		if j.sub.Name == "ScheduleAfterClose" {
			add("post-close", "schedule-after-close-accepted", j.sub.String()+": want ErrWorkerPoolIsClosed")
			continue
		}
		if j.sub.Name == "Invoke" {
			continue // no result: may or may not have been accepted
		}
		accepted++
		// (iii) exactly once by the fair horizon
		if len(j.ends) == 0 {
			why := "never started"
			if len(j.starts) > 0 {
				why = "started but never finished"
			}
			add("exactly-once", "accepted-job-"+why2(why), fmt.Sprintf("%s: %s within the fair virtual-time horizon (2000 time units) after the last submission (pool left open); config max=%d standby=%d batch=%d expiry=%v", desc(j), why, sc.Max, sc.StandBy, sc.Batch, sc.ExpiryDur)+"; "+sc.strandedInfo)
		}
	}
	if accepted >= 2 {
		sc.probes["accepted>=2"]++
	}
	if len(sc.decoyRan) > 0 {
		add("at-most-once", "invokable-ran-a-callee-installed-after-the-invoke", fmt.Sprintf("an Invokable was given another callee right after Invoke/InvokeWithTimeout returned; that later callee ran with %v although nothing was invoked on it (the submitted job is the callee of the time of the call)", sc.decoyRan))
	}
	if sc.stalledInfo != "" && sc.stranded {
		add("panic-isolation", "pool-stalled-while-the-panic-handler-runs", "a panicking job must not keep later accepted jobs from running, but "+sc.stalledInfo)
	}
	// (iv) concurrency gauge
	sort.Slice(evs, func(i, k int) bool { return evs[i].at < evs[k].at })
	running, maxRun := 0, 0
	for _, e := range evs {
		running += e.d
		if running > maxRun {
			maxRun = running
		}
	}
	if maxRun > 1 {
		sc.probes["jobs-overlapped"]++
	}
	if maxRun > sc.Max {
		add("concurrency", "more-than-workerSizeMaximum", fmt.Sprintf("%d jobs were executing at one instant; workerSizeMaximum=%d", maxRun, sc.Max))
	}
	// (v) panic handler log
	want := map[string]int{}
	for _, j := range sc.jobs {
		if j.panicVal != "" {
			want[j.panicVal]++
		}
	}
	got := map[string]int{}
	gotAll := map[string]int{} // including reports made after the pool was closed (a job without a result, submitted through Invoke, may run that late)
	startOf := map[string]uint64{}
	for _, j := range sc.jobs {
		if j.panicVal != "" && len(j.starts) > 0 {
			startOf[j.panicVal] = j.starts[0]
		}
	}
	for _, hd := range sc.handler {
		gotAll[hd.val]++
		if sc.closeAt != 0 && hd.at > sc.closeAt {
			continue
		}
		got[hd.val]++
		// a job that started after SetPanicHandler(h2) had returned panics later still: h2 is "the panic handler"
		if st, ok := startOf[hd.val]; ok && sc.rehandledAt != 0 && st > sc.rehandledAt {
			sc.probes["panic-after-handler-replacement"]++
			if hd.gen == 1 {
				add("panic-handler", "reported-to-the-replaced-handler", fmt.Sprintf("job panic %q (job started at %d) was reported to the handler that SetPanicHandler had replaced before (returned at %d)", hd.val, st, sc.rehandledAt))
			}
		}
	}
	for v, n := range got {
		if want[v] == 0 {
			add("panic-handler", "foreign-panic:"+reNum.ReplaceAllString(normPanic(v), "N"), fmt.Sprintf("the pool's panic handler was invoked with %q, which is no job's own panic", v))
		} else if n > want[v] {
			add("panic-handler", "reported-twice", fmt.Sprintf("panic %q reported %d times", v, n))
		}
	}
	for v := range want {
		if gotAll[v] == 0 && !sc.NilHandler {
			add("panic-handler", "not-reported", fmt.Sprintf("job panic %q never reached the panic handler", v))
		}
	}
	return dedupe(vs)
}

func why2(s string) string {
	if s == "never started" {
		return "never-started"
	}
	return "never-finished"
}

// c09SettingsOf copies the settings of a pool. The field is read through reflection so that the harness
// keeps compiling when a change under test turns the embedded struct into a pointer (seeded change C09d).
func c09SettingsOf(p *worker.DefaultWorkerPool) worker.DefaultWorkerPoolSettings {
	v := reflect.ValueOf(p).Elem().FieldByName("DefaultWorkerPoolSettings")
	if v.Kind() == reflect.Ptr {
		return v.Elem().Interface().(worker.DefaultWorkerPoolSettings)
	}
	return v.Interface().(worker.DefaultWorkerPoolSettings)
}
