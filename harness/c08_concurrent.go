package harness

import (
	"fmt"
	"sort"
	"strings"
	"time"

	fpgo "github.com/TeaEntityLab/fpGo/v2"
	"github.com/anishathalye/porcupine"
	"verif.local/simrt"
)

// C08 — ConcurrentQueue / ConcurrentStack are linearizable over any wrapped queue/stack.

func init() {
	register(&Property{
		ID:    "C08",
		Files: []string{"queue.go"},
		Funcs: []string{"ConcurrentQueue", "ConcurrentStack"},
		Gen:   genC08,
		Rule: "P producers x K consumers (quick 1..4 each with 1..4 ops, thorough up to 16 x 16) on a ConcurrentQueue/ConcurrentStack wrapping the real LinkedListQueue (or a deliberately unsafe slice structure, 1 in 3 of those bounded: it rejects insertions beyond its capacity) " +
			"(statement-level yields inside it) or a harness slice queue/stack with a yield between its load and store; final single-threaded drain; " +
			"history checked with porcupine against a sequential FIFO/LIFO model plus direct duplicate/lost/invented checks; " +
			"non-trivial = at least two calls overlapped in the recorded history; distinct = distinct context-switch signature" +
			" Flavours: long sequential warm-up backlogs, the wrapped list's node pool trimmed by its owner beforehand, a wrapper of a wrapper with both handles in use.",
		Real:        []string{"fpgo.ConcurrentQueue", "fpgo.ConcurrentStack", "fpgo.LinkedListQueue", "sync.RWMutex (TryLock-probed)"},
		Stub:        []string{"goroutine scheduler", "sync.Pool node allocator", "harness slice queue/stack (wrapped implementation variant)"},
		Assumptions: []string{"porcupine results of Unknown (timeout) are counted as inconclusive and never reported"},
	})
}

type c08Scenario struct {
	Kind    string     `json:"kind"` // queue-ll, stack-ll, queue-slice, stack-slice
	Threads [][]string `json:"threads"`
	Warm    int        `json:"warm_up_backlog,omitempty"` // > 0: two sequential backlogs of this size go through the wrapper first
	Nested  bool       `json:"wrapper_of_a_wrapper_both_handles_used,omitempty"`
	Bound   int        `json:"wrapped_structure_capacity,omitempty"`
	NilVal  int        `json:"value_stored_as_nil_pointer,omitempty"`
	Trim    []int      `json:"node_pool_trimmed_before,omitempty"` // [m, n]: m values go through the wrapper, then the owner trims the wrapped list's node pool to n

	h          *Hist
	extra      []Violation
	hung       bool
	probes     map[string]int
	inconcl    bool
	overlapped bool
}

func genC08(t *simrt.Tape, tier string) Scenario {
	sc := &c08Scenario{probes: map[string]int{}}
	sc.Kind = []string{"queue-ll", "stack-ll", "queue-slice", "stack-slice", "queue-ptr", "stack-ptr", "queue-chan"}[t.Choose(7)]
	if strings.HasSuffix(sc.Kind, "-ptr") {
		// pointer element type over the real LinkedListQueue; one of the first values is stored as a nil pointer
		// (an element like any other)
		sc.NilVal = 1 + t.Choose(4)
	}
	if strings.HasSuffix(sc.Kind, "-ll") && t.Bool(1, 12) {
		// the wrapped LinkedListQueue has been used heavily before the concurrent phase starts
		sc.Warm = 130 + t.Choose(60)
	}
	if strings.HasSuffix(sc.Kind, "-ll") && sc.Warm == 0 && t.Bool(1, 6) {
		// the owner of the wrapped LinkedListQueue has trimmed its node pool (as BufferedChannelQueue does
		// with its own list) before the concurrent phase
		sc.Trim = []int{4 + t.Choose(10), 1 + t.Choose(3)}
	}
	// a ConcurrentQueue/Stack is itself a Queue/Stack: it may be wrapped again, and both handles may be used
	sc.Nested = t.Bool(1, 5)
	if sc.Kind == "queue-chan" {
		// the wrapped queue is the library's own bounded ChannelQueue, driven through the non-blocking calls only (its
		// Put/Take block by contract, which under the wrapper's lock would be the caller's own deadlock)
		sc.Bound = 1 + t.Choose(3)
	}
	if strings.HasSuffix(sc.Kind, "-slice") && t.Bool(1, 3) {
		// the wrapped structure is bounded: it rejects insertions beyond its capacity with ErrQueueIsFull/ErrStackIsFull,
		// which the wrapper hands through - and goes on working afterwards
		sc.Bound = 1 + t.Choose(3)
	}
	// (a wrapped structure that panics was tried as a fault and withdrawn: the property presupposes a wrapped
	// structure whose calls return - "no call panics" - so what the wrapper owes its other users after such a panic
	// is not stated; a wrapper that unlocks explicitly instead of by defer satisfies the property. DESIGN.md §9, 17)
	maxT, maxOps := 4, 4
	if tier == "thorough" {
		if t.Bool(1, 3) {
			maxT, maxOps = 16, 2
		} else {
			maxT, maxOps = 6, 4
		}
	}
	np := 1 + t.Choose(maxT)
	nc := 1 + t.Choose(maxT)
	isStack := strings.HasPrefix(sc.Kind, "stack")
	total := 0
	for i := 0; i < np+nc; i++ {
		n := 1 + t.Choose(maxOps)
		if total+n > 34 {
			n = 1
		}
		total += n
		var ops []string
		for k := 0; k < n; k++ {
			producer := i < np
			if t.Bool(1, 6) { // mixed threads
				producer = !producer
			}
			switch {
			case isStack && producer:
				ops = append(ops, "Push")
			case isStack:
				ops = append(ops, "Pop")
			case producer && sc.Kind == "queue-chan":
				ops = append(ops, "Offer")
			case sc.Kind == "queue-chan":
				ops = append(ops, "Poll")
			case producer:
				ops = append(ops, []string{"Offer", "Put"}[t.Choose(2)])
			default:
				ops = append(ops, []string{"Poll", "Take"}[t.Choose(2)])
			}
		}
		sc.Threads = append(sc.Threads, ops)
	}
	return sc
}

func (sc *c08Scenario) Describe() interface{} { return sc }
func (sc *c08Scenario) Config() simrt.Config {
	return simrt.Config{Horizon: 10 * time.Minute, MaxSteps: 200000, NoStall: true}
}
func (sc *c08Scenario) Probes() map[string]int { return sc.probes }
func (sc *c08Scenario) Nontrivial(res *simrt.Result) bool {
	return sc.overlapped
}

// sliceQueue is non-thread-safe by construction: a yield sits between every load and store.
type sliceQueue struct {
	s     *simrt.Sim
	items []int
	bound int
}

func (q *sliceQueue) Offer(v int) error { return q.insert(v, fpgo.ErrQueueIsFull) }
func (q *sliceQueue) insert(v int, full error) error {
	cur := q.items
	q.s.Yield()
	if q.bound > 0 && len(cur) >= q.bound {
		return full
	}
	n := make([]int, len(cur)+1)
	copy(n, cur)
	n[len(cur)] = v
	q.s.Yield()
	q.items = n
	return nil
}
func (q *sliceQueue) Put(v int) error { return q.Offer(v) }
func (q *sliceQueue) Poll() (int, error) {
	cur := q.items
	q.s.Yield()
	if len(cur) == 0 {
		return 0, fpgo.ErrQueueIsEmpty
	}
	v := cur[0]
	q.s.Yield()
	q.items = cur[1:]
	return v, nil
}
func (q *sliceQueue) Take() (int, error) { return q.Poll() }
func (q *sliceQueue) Push(v int) error   { return q.insert(v, fpgo.ErrStackIsFull) }
func (q *sliceQueue) Pop() (int, error) {
	cur := q.items
	q.s.Yield()
	if len(cur) == 0 {
		return 0, fpgo.ErrStackIsEmpty
	}
	v := cur[len(cur)-1]
	q.s.Yield()
	q.items = cur[:len(cur)-1]
	return v, nil
}

func (sc *c08Scenario) Run(s *simrt.Sim) {
	h := &Hist{S: s}
	sc.h = h
	var queue fpgo.Queue[int]
	var stack fpgo.Stack[int]
	var ll *fpgo.LinkedListQueue[int]
	switch sc.Kind {
	case "queue-ll":
		ll = fpgo.NewLinkedListQueue[int]()
		queue = ll
	case "stack-ll":
		ll = fpgo.NewLinkedListQueue[int]()
		stack = ll
	case "queue-slice":
		queue = &sliceQueue{s: s, bound: sc.Bound}
	case "queue-chan":
		queue = fpgo.NewChannelQueue[int](sc.Bound)
		sc.probes["wrapped-ChannelQueue"]++
	case "stack-slice":
		stack = &sliceQueue{s: s, bound: sc.Bound}
	}
	var cq fpgo.Queue[int]
	var cs fpgo.Stack[int]
	var innerQ fpgo.Queue[int]
	var innerS fpgo.Stack[int]
	switch {
	case sc.Kind == "queue-ptr":
		in := fpgo.NewConcurrentQueue[*c08Box](fpgo.NewLinkedListQueue[*c08Box]())
		innerQ, cq = c08PtrQ{q: in, nilVal: sc.NilVal}, c08PtrQ{q: in, nilVal: sc.NilVal}
		if sc.Nested {
			cq = c08PtrQ{q: fpgo.NewConcurrentQueue[*c08Box](in), nilVal: sc.NilVal}
		}
		sc.probes["pointer-elements-one-of-them-nil"]++
	case sc.Kind == "stack-ptr":
		in := fpgo.NewConcurrentStack[*c08Box](fpgo.NewLinkedListQueue[*c08Box]())
		innerS, cs = c08PtrS{q: in, nilVal: sc.NilVal}, c08PtrS{q: in, nilVal: sc.NilVal}
		if sc.Nested {
			cs = c08PtrS{q: fpgo.NewConcurrentStack[*c08Box](in), nilVal: sc.NilVal}
		}
		sc.probes["pointer-elements-one-of-them-nil"]++
	case queue != nil:
		in := fpgo.NewConcurrentQueue[int](queue)
		innerQ, cq = in, in
		if sc.Nested {
			cq = fpgo.NewConcurrentQueue[int](in)
		}
	default:
		in := fpgo.NewConcurrentStack[int](stack)
		innerS, cs = in, in
		if sc.Nested {
			cs = fpgo.NewConcurrentStack[int](in)
		}
	}
	if sc.Nested {
		sc.probes["wrapper-of-a-wrapper"]++
	}
	outerQ, outerS := cq, cs
	useInner := func(inner bool) {
		if inner {
			cq, cs = innerQ, innerS
		} else {
			cq, cs = outerQ, outerS
		}
	}
	do := func(name, opk string, v int) *Op {
		if sc.Nested {
			// odd-numbered threads talk to the inner wrapper, the others (and the final drain) to the outer one
			n := 0
			fmt.Sscanf(name, "t%d", &n)
			useInner(strings.HasPrefix(name, "t") && n%2 == 1)
		}
		switch opk {
		case "Offer":
			return h.Do(name, "Offer", v, func() (interface{}, error) { return nil, cq.Offer(v) })
		case "Put":
			return h.Do(name, "Put", v, func() (interface{}, error) { return nil, cq.Put(v) })
		case "Poll":
			return h.Do(name, "Poll", nil, func() (interface{}, error) { return cq.Poll() })
		case "Take":
			return h.Do(name, "Take", nil, func() (interface{}, error) { return cq.Take() })
		case "Push":
			return h.Do(name, "Push", v, func() (interface{}, error) { return nil, cs.Push(v) })
		case "Pop":
			return h.Do(name, "Pop", nil, func() (interface{}, error) { return cs.Pop() })
		}
		return nil
	}
	if len(sc.Trim) == 2 && ll != nil {
		for i := 0; i < sc.Trim[0]; i++ {
			if cq != nil {
				cq.Offer(-5000 - i)
			} else {
				cs.Push(-5000 - i)
			}
		}
		for i := 0; i < sc.Trim[0]; i++ {
			if cq != nil {
				cq.Poll()
			} else {
				cs.Pop()
			}
		}
		ll.KeepNodePoolCount(sc.Trim[1])
		sc.probes["node-pool-trimmed"]++
		if sc.Trim[0]%2 == 0 {
			// ... and resets it with Clear() while it holds a few elements and no call is in flight (a cancellation path)
			for i := 0; i <= sc.Trim[1]; i++ {
				if cq != nil {
					cq.Offer(-7000 - i)
				} else {
					cs.Push(-7000 - i)
				}
			}
			ll.Clear()
			sc.probes["wrapped-structure-cleared-by-its-owner"]++
		}
	}
	for round := 0; round < 2 && sc.Warm > 0; round++ {
		// (not part of the recorded history: the structure is empty again when the history starts)
		for i := 0; i < sc.Warm; i++ {
			if cq != nil {
				cq.Offer(-1000*(round+1) - i)
			} else {
				cs.Push(-1000*(round+1) - i)
			}
		}
		for i := 0; i < sc.Warm; i++ {
			var v int
			var err error
			want := -1000*(round+1) - i
			if cq != nil {
				v, err = cq.Poll()
			} else {
				v, err = cs.Pop()
				want = -1000*(round+1) - (sc.Warm - 1 - i)
			}
			if err != nil || v != want {
				sc.extra = append(sc.extra, Violation{Clause: "sequential-warm-up", Fingerprint: sc.Kind + ":wrong-removal", Detail: fmt.Sprintf("sequential warm-up round %d: removal %d of %d returned (%v, %v), want %d", round, i, sc.Warm, v, err, want)})
				return
			}
		}
		sc.probes["warm-up-backlog"]++
	}
	var ths []*simrt.Thread
	val := 0
	for i, ops := range sc.Threads {
		name := fmt.Sprintf("t%d", i)
		ops := ops
		ths = append(ths, s.Go(name, func() {
			for _, opk := range ops {
				val++
				do(name, opk, val)
				s.Yield()
			}
		}))
	}
	done := allDone(ths)
	if !s.WaitUntilTimeout(done, time.Minute) {
		s.SetFair(true)
		if !s.WaitUntilTimeout(done, 5*time.Minute) {
			sc.hung = true
			return
		}
	}
	// single-threaded drain is part of the history
	for i := 0; i < 80; i++ {
		var op *Op
		if cq != nil {
			op = do("main", "Poll", 0)
		} else {
			op = do("main", "Pop", 0)
		}
		if op.Panic != "" || op.Err != nil {
			break
		}
	}
}

// pointer-typed elements: value NilVal travels as a nil *c08Box, every other value in a box of its own
type c08Box struct{ v int }

type c08PtrQ struct {
	q      *fpgo.ConcurrentQueue[*c08Box]
	nilVal int
}

func c08Wrap(v, nilVal int) *c08Box {
	if v == nilVal {
		return nil
	}
	return &c08Box{v}
}
func c08Unwrap(p *c08Box, err error, nilVal int) (int, error) {
	if err != nil {
		return 0, err
	}
	if p == nil {
		return nilVal, nil
	}
	return p.v, nil
}
func (a c08PtrQ) Offer(v int) error { return a.q.Offer(c08Wrap(v, a.nilVal)) }
func (a c08PtrQ) Put(v int) error   { return a.q.Put(c08Wrap(v, a.nilVal)) }
func (a c08PtrQ) Poll() (int, error) {
	p, err := a.q.Poll()
	return c08Unwrap(p, err, a.nilVal)
}
func (a c08PtrQ) Take() (int, error) {
	p, err := a.q.Take()
	return c08Unwrap(p, err, a.nilVal)
}

type c08PtrS struct {
	q      *fpgo.ConcurrentStack[*c08Box]
	nilVal int
}

func (a c08PtrS) Push(v int) error { return a.q.Push(c08Wrap(v, a.nilVal)) }
func (a c08PtrS) Pop() (int, error) {
	p, err := a.q.Pop()
	return c08Unwrap(p, err, a.nilVal)
}

type c08In struct {
	push bool
	val  int
}
type c08Out struct {
	val   int
	empty bool
	err   bool
}

func c08Model(lifo bool, bound int) porcupine.Model {
	return porcupine.Model{
		Init: func() interface{} { return "" },
		Step: func(state, input, output interface{}) (bool, interface{}) {
			st := state.(string)
			in := input.(c08In)
			out := output.(c08Out)
			if in.push {
				if out.err {
					// rejected: legal exactly when the bounded structure is full; nothing changes
					return bound > 0 && strings.Count(st, ",") >= bound, st
				}
				if bound > 0 && strings.Count(st, ",") >= bound {
					return false, st
				}
				return true, st + fmt.Sprintf("%d,", in.val)
			}
			if st == "" {
				return out.empty, st
			}
			if out.empty || out.err {
				return false, st
			}
			items := strings.Split(strings.TrimSuffix(st, ","), ",")
			var want string
			var rest []string
			if lifo {
				want = items[len(items)-1]
				rest = items[:len(items)-1]
			} else {
				want = items[0]
				rest = items[1:]
			}
			if want != fmt.Sprint(out.val) {
				return false, st
			}
			ns := ""
			for _, x := range rest {
				ns += x + ","
			}
			return true, ns
		},
		Equal: func(a, b interface{}) bool { return a.(string) == b.(string) },
		DescribeOperation: func(input, output interface{}) string {
			return fmt.Sprintf("%+v -> %+v", input, output)
		},
	}
}

func (sc *c08Scenario) Check(res *simrt.Result) []Violation {
	var vs []Violation
	vs = append(vs, goroutinePanics(res)...)
	if sc.h == nil {
		return vs
	}
	vs = append(vs, opPanics(sc.h)...)
	vs = append(vs, sc.extra...)
	if len(sc.extra) > 0 {
		return dedupe(vs)
	}
	h := sc.h
	isStack := strings.HasPrefix(sc.Kind, "stack")
	if sc.hung || res.Reason != "done" {
		vs = append(vs, Violation{Clause: "hang", Fingerprint: sc.Kind, Detail: "calls did not return: " + pendingOps(h)})
		return dedupe(vs)
	}
	// overlap probe
	for i, a := range h.Ops {
		for _, b := range h.Ops[i+1:] {
			if a.Inv < b.Ret && b.Inv < a.Ret && a.Thread != b.Thread {
				sc.overlapped = true
			}
		}
	}
	if sc.overlapped {
		sc.probes["overlapping-calls"]++
	}
	anyPanic := false
	pushed := map[int]bool{}
	got := map[int]int{}
	var pops []porcupine.Operation
	for _, op := range h.Ops {
		if op.Panic != "" {
			anyPanic = true
			continue
		}
		switch op.Name {
		case "Offer", "Put", "Push":
			full := map[bool]error{true: fpgo.ErrStackIsFull, false: fpgo.ErrQueueIsFull}[op.Name == "Push"]
			if op.Err == nil {
				pushed[op.Arg.(int)] = true
			} else if sc.Bound > 0 && op.Err == full {
				sc.probes["insertion-rejected-by-the-bounded-wrapped-structure"]++
			} else {
				vs = append(vs, Violation{Clause: "unexpected-error", Fingerprint: sc.Kind + "." + op.Name, Detail: op.String()})
			}
			pops = append(pops, porcupine.Operation{ClientId: op.TID, Input: c08In{push: true, val: op.Arg.(int)}, Call: int64(op.Inv), Output: c08Out{err: op.Err != nil}, Return: int64(op.Ret)})
		default:
			out := c08Out{}
			if op.Err != nil {
				if op.Err == fpgo.ErrQueueIsEmpty || op.Err == fpgo.ErrStackIsEmpty {
					out.empty = true
					// the wrapper hands the wrapped structure's own report through: a stack says ErrStackIsEmpty, a queue ErrQueueIsEmpty
					if want := map[bool]error{true: fpgo.ErrStackIsEmpty, false: fpgo.ErrQueueIsEmpty}[op.Name == "Pop"]; op.Err != want {
						vs = append(vs, Violation{Clause: "unexpected-error", Fingerprint: sc.Kind + "." + op.Name + ":wrong-kind-of-empty-error", Detail: op.String() + fmt.Sprintf(": want %v", want)})
					}
				} else {
					out.err = true
				}
			} else {
				out.val = op.Val.(int)
				got[out.val]++
			}
			pops = append(pops, porcupine.Operation{ClientId: op.TID, Input: c08In{}, Call: int64(op.Inv), Output: out, Return: int64(op.Ret)})
		}
	}
	var keys []int
	for v := range got {
		keys = append(keys, v)
	}
	sort.Ints(keys)
	for _, v := range keys {
		if !pushed[v] {
			vs = append(vs, Violation{Clause: "invented", Fingerprint: sc.Kind, Detail: fmt.Sprintf("value %d returned by a removal but never offered; history: %s", v, histString(h))})
		} else if got[v] > 1 {
			vs = append(vs, Violation{Clause: "duplicate", Fingerprint: sc.Kind, Detail: fmt.Sprintf("value %d returned by %d removals; history: %s", v, got[v], histString(h))})
		}
	}
	if !anyPanic {
		var lost []int
		for v := range pushed {
			if got[v] == 0 {
				lost = append(lost, v)
			}
		}
		sort.Ints(lost)
		if len(lost) > 0 {
			vs = append(vs, Violation{Clause: "lost", Fingerprint: sc.Kind, Detail: fmt.Sprintf("values %v offered but not returned by any removal although the structure was drained; history: %s", lost, histString(h))})
		}
		if len(vs) == 0 {
			// the search is exponential in the number of overlapping calls: wide histories get a short
			// budget (Unknown = inconclusive, never reported); the direct checks above always run
			budget := 10 * time.Second
			if len(pops) > 24 {
				budget = 300 * time.Millisecond
			}
			r := porcupine.CheckOperationsTimeout(c08Model(isStack, sc.Bound), pops, budget)
			switch r {
			case porcupine.Illegal:
				vs = append(vs, Violation{Clause: "not-linearizable", Fingerprint: sc.Kind, Detail: "porcupine: no sequential order explains the history: " + histString(h)})
			case porcupine.Unknown:
				sc.inconcl = true
				sc.probes["porcupine-unknown"]++
			default:
				sc.probes["porcupine-ok"]++
			}
		}
	}
	return dedupe(vs)
}

func pendingOps(h *Hist) string {
	var s []string
	for _, op := range h.Ops {
		if !op.Returned {
			s = append(s, op.String())
		}
	}
	return strings.Join(s, "; ")
}

func histString(h *Hist) string {
	var s []string
	for _, op := range h.Ops {
		s = append(s, fmt.Sprintf("[%d,%d] %s", op.Inv, op.Ret, op.String()))
	}
	return strings.Join(s, "; ")
}
