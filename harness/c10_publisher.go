package harness

import (
	"fmt"
	"time"

	fpgo "github.com/TeaEntityLab/fpGo/v2"
	"verif.local/simrt"
)

// C10 — Publisher delivers each value exactly once per live subscription, in order.

func init() {
	register(&Property{
		ID:    "C10",
		Files: []string{"publisher.go", "handler.go"},
		Funcs: []string{"PublisherDef", "PublisherNewGenerics"},
		Gen:   genC10,
		Rule: "one publisher with 3..6 initial subscriptions (each with a scripted callback action: none / unsubscribe itself / unsubscribe another / subscribe a new one), optional Map-derived publisher with its own subscriptions, " +
			"optional SubscribeOn(handler); 1..3 threads run histories over Publish(unique v) / Subscribe / Unsubscribe; oracle per (Publish, subscription): exactly one delivery when registered before the call and not unsubscribed " +
			"before it returned, none when unsubscribed before it began, never two; subscription order without handler; handler thread identity; Map delivers fn(v) once; " +
			"non-trivial = a (un)subscribe overlapped a Publish (re-entrant or concurrent); distinct = distinct context-switch signature" +
			" Flavours: publisher tree (Map, Map of Map, run-time Map), values published into derived publishers, (un)subscriptions on derived publishers incl. drain-and-resubscribe, derived publishers with a SubscribeOn handler of their own (another / the origin's), handler closed right after the last publish, placeholder subscriptions, callbacks bound through the returned handle after another subscriber came and went, an unsubscribed Subscription value subscribed again.",
		Real: []string{"fpgo.PublisherDef (Subscribe, Unsubscribe, Publish, Map, SubscribeOn)", "fpgo.HandlerDef"},
		Stub: []string{"goroutine scheduler", "subscription callbacks"},
	})
}

type c10Op struct {
	Kind string `json:"op"` // Publish | Subscribe | Unsubscribe | Map
	Sub  int    `json:"sub,omitempty"`
}

type c10Scenario struct {
	Handler bool      `json:"handler"`
	Map     bool      `json:"map"`
	NSubs   int       `json:"initial_subs"`
	Actions []string  `json:"actions"` // per initial subscription
	Targets []int     `json:"targets"` // for unsubOther
	NDerive int       `json:"derived_subs"`
	Map2    bool      `json:"second_level_map"`
	CloseH  bool      `json:"handler_closed_right_after_the_last_publish,omitempty"`
	DerivH  string    `json:"derived_publisher_subscribe_on,omitempty"` // "", "own" (another handler), "same" (the origin's, buffered)
	Threads [][]c10Op `json:"threads"`

	h         *Hist
	probes    map[string]int
	subs      []*c10Sub
	pubs      []*c10Pub
	deliv     []c10Deliv
	hTID      int
	hung      bool
	extra     []Violation
	overlapE  bool
	nestedVal int
}

type c10Sub struct {
	id          int
	derived     bool
	ptr         *fpgo.Subscription[int]
	subOp       *Op
	unsubs      []*Op
	action      string
	target      int
	fired       bool
	initial     bool
	level       int
	placeholder bool
	resubCopy   bool    // subscribed, unsubscribed, and the Subscription value (*handle) subscribed again: the new registration is live
	alias       *c10Sub // deliveries through this subscription's callback belong to that registration
	lateBind    bool    // registered without a callback; the callback is set through the returned handle before anything is published
	node        *c10Node
	pub         *fpgo.PublisherDef[int] // the publisher the subscription was made on
}

type c10Pub struct {
	op   *Op
	val  int
	node *c10Node // the publisher the value was published INTO
}

// c10Node: a publisher in the Map tree (the origin has depth 0, p.Map(fn) depth 1, ...)
type c10Node struct {
	parent *c10Node
	depth  int
	hTID   int // thread of the handler set on this publisher through SubscribeOn (0 = none)
}

func (n *c10Node) under(x *c10Node) bool {
	for ; n != nil; n = n.parent {
		if n == x {
			return true
		}
	}
	return false
}

type c10Deliv struct {
	sub    int
	val    int
	at     uint64
	thread int
}

func genC10(t *simrt.Tape, tier string) Scenario {
	sc := &c10Scenario{probes: map[string]int{}}
	sc.Handler = t.Bool(1, 3)
	sc.Map = t.Bool(1, 3)
	sc.NSubs = 3 + t.Choose(4)
	for i := 0; i < sc.NSubs; i++ {
		sc.Actions = append(sc.Actions, []string{"none", "unsubSelf", "unsubOther", "subNew", "publishNested", "placeholder", "lateBind", "resubCopy"}[t.ChooseW([]int{4, 2, 2, 1, 1, 1, 1, 1})])
		sc.Targets = append(sc.Targets, t.Choose(sc.NSubs))
	}
	if sc.Map {
		sc.NDerive = t.Choose(3) // (0: the derived publisher gets its first subscribers at run time, possibly from two threads at once)
		sc.Map2 = t.Bool(1, 3)
	}
	if sc.Handler {
		// the user closes the handler as soon as the publishing threads are done: what Publish handed over before
		// that is still delivered (a Handler runs what was posted before Close)
		sc.CloseH = t.Bool(1, 3)
		if sc.Map && !sc.CloseH && t.Bool(1, 2) {
			// the Map-derived publisher has a SubscribeOn handler of its own
			sc.DerivH = []string{"own", "same"}[t.Choose(2)]
		}
		// a callback running on the handler that publishes again would post to its own (unbuffered)
		// handler: a self-deadlock by design, not a subject of the property
		for i, a := range sc.Actions {
			if a == "publishNested" {
				sc.Actions[i] = "none"
			}
		}
	}
	maxT, maxOps := 2, 4
	if tier == "thorough" {
		maxT, maxOps = 3, 6
	}
	nt := 1 + t.Choose(maxT)
	for i := 0; i < nt; i++ {
		n := 1 + t.Choose(maxOps)
		var ops []c10Op
		for k := 0; k < n; k++ {
			switch t.ChooseW([]int{10, 2, 4, 1, 1, 1}) {
			case 5:
				// a subscription made at run time on the Map-derived publisher
				if sc.Map {
					ops = append(ops, c10Op{Kind: "SubscribeDerived"})
				} else {
					ops = append(ops, c10Op{Kind: "Subscribe"})
				}
			case 4:
				if sc.Map {
					ops = append(ops, c10Op{Kind: "PublishMid"})
				} else {
					ops = append(ops, c10Op{Kind: "Publish"})
				}
			case 3:
				// derive a mapped publisher from the shared origin at run time and subscribe to it
				ops = append(ops, c10Op{Kind: "Map"})
			case 0:
				ops = append(ops, c10Op{Kind: "Publish"})
			case 1:
				ops = append(ops, c10Op{Kind: "Subscribe"})
			case 2:
				// any initial subscription, those of the derived publishers included
				nInit := sc.NSubs + sc.NDerive
				if sc.Map2 {
					nInit++
				}
				ops = append(ops, c10Op{Kind: "Unsubscribe", Sub: t.Choose(nInit)})
			}
		}
		sc.Threads = append(sc.Threads, ops)
	}
	if sc.Map && t.Bool(1, 3) {
		// somewhere in one thread: every subscription of the derived publisher(s) is unsubscribed, a new one is made
		// there, and the origin publishes again
		ti := t.Choose(len(sc.Threads))
		at := t.Choose(len(sc.Threads[ti]) + 1)
		ops := append([]c10Op{}, sc.Threads[ti][:at]...)
		ops = append(ops, c10Op{Kind: "DrainDerived"}, c10Op{Kind: "SubscribeDerived"}, c10Op{Kind: "Publish"})
		sc.Threads[ti] = append(ops, sc.Threads[ti][at:]...)
	}
	return sc
}

func (sc *c10Scenario) Describe() interface{} { return sc }
func (sc *c10Scenario) Config() simrt.Config {
	return simrt.Config{Horizon: time.Hour, MaxSteps: 300000, NoStall: true}
}
func (sc *c10Scenario) Probes() map[string]int            { return sc.probes }
func (sc *c10Scenario) Nontrivial(res *simrt.Result) bool { return sc.overlapE }

const c10MapOffset = 1000000

func (sc *c10Scenario) Run(s *simrt.Sim) {
	h := &Hist{S: s}
	sc.h = h
	p := fpgo.PublisherNewGenerics[int]()
	var hd *fpgo.HandlerDef
	sc.hTID = -1
	if sc.Handler {
		hd = fpgo.Handler.New()
		if sc.DerivH == "same" {
			// (origin and derived publisher on ONE handler: the forwarding callback posts to the handler it runs on,
			// which needs a mailbox with room)
			hd = fpgo.Handler.NewByCh(make(chan func(), 4096))
		}
		if sc.CloseH && sc.NSubs%2 == 1 {
			hd = fpgo.Handler.NewByCh(make(chan func(), 8)) // a mailbox that can hold a backlog
		}
		if sc.NSubs%4 == 0 && sc.DerivH != "same" {
			// the library's default Handler, re-created inside this simulation (see C12)
			fpgo.SimReinit()
			hd = fpgo.Handler.GetDefault()
		}
		p.SubscribeOn(hd)
		// learn the handler goroutine's thread id
		got := false
		hd.Post(func() { sc.hTID = s.Self().ID; got = true })
		s.WaitUntilTimeout(func() bool { return got }, time.Minute)
	}
	root := &c10Node{}
	if sc.Handler {
		root.hTID = sc.hTID
	}
	nodeOf := map[*fpgo.PublisherDef[int]]*c10Node{p: root}
	var unsubscribe func(name string, target *c10Sub)
	var newSub func(name string, pub *fpgo.PublisherDef[int], derived bool, action string, target int) *c10Sub
	newSub = func(name string, pub *fpgo.PublisherDef[int], derived bool, action string, target int) *c10Sub {
		cs := &c10Sub{id: len(sc.subs), derived: derived, action: action, target: target, node: nodeOf[pub], pub: pub}
		sc.subs = append(sc.subs, cs)
		if action == "placeholder" {
			// a registered subscription without a callback: gets nothing, disturbs nobody
			cs.subOp = h.Do(name, "Subscribe", cs.id, func() (interface{}, error) {
				cs.ptr = pub.Subscribe(fpgo.Subscription[int]{})
				return nil, nil
			})
			cs.placeholder = true
			return cs
		}
		if action == "resubCopy" {
			cs.resubCopy = true
			cs.action = "none"
			action = "none"
		}
		if action == "lateBind" {
			cs.subOp = h.Do(name, "Subscribe", cs.id, func() (interface{}, error) {
				cs.ptr = pub.Subscribe(fpgo.Subscription[int]{})
				return nil, nil
			})
			cs.lateBind = true
			cs.action = "none"
			return cs
		}
		cs.subOp = h.Do(name, "Subscribe", cs.id, func() (interface{}, error) {
			cs.ptr = pub.Subscribe(fpgo.Subscription[int]{OnNext: func(v int) {
				who := cs
				if cs.alias != nil {
					who = cs.alias
				}
				sc.deliv = append(sc.deliv, c10Deliv{sub: who.id, val: v, at: s.Stamp(), thread: s.Self().ID})
				s.Yield()
				if cs.fired || cs.action == "none" {
					return
				}
				cs.fired = true
				cb := fmt.Sprintf("callback-of-sub%d", cs.id)
				switch cs.action {
				case "unsubSelf":
					unsubscribe(cb, cs)
				case "unsubOther":
					if cs.target < len(sc.subs) {
						unsubscribe(cb, sc.subs[cs.target])
					}
				case "subNew":
					newSub(cb, p, false, "none", 0)
				case "publishNested":
					sc.nestedVal++
					nv := 500000 + sc.nestedVal
					po := h.Do(cb, "Publish", nv, func() (interface{}, error) { p.Publish(nv); return nil, nil })
					sc.pubs = append(sc.pubs, &c10Pub{op: po, val: nv, node: root})
				}
			}})
			return nil, nil
		})
		return cs
	}
	unsubscribe = func(name string, target *c10Sub) {
		if target.ptr == nil || target.pub == nil {
			return
		}
		op := h.Do(name, "Unsubscribe", target.id, func() (interface{}, error) { target.pub.Unsubscribe(target.ptr); return nil, nil })
		target.unsubs = append(target.unsubs, op)
	}
	for i := 0; i < sc.NSubs; i++ {
		cs := newSub("main", p, false, sc.Actions[i], sc.Targets[i])
		cs.initial = true
	}
	for _, cs := range append([]*c10Sub{}, sc.subs...) {
		if !cs.resubCopy || cs.ptr == nil {
			continue
		}
		// unsubscribed, then the very Subscription value is subscribed again (all before the first Publish): the new
		// registration is a subscriber like any other
		unsubscribe("main", cs)
		cs2 := &c10Sub{id: len(sc.subs), action: "none", node: cs.node, pub: cs.pub, initial: true}
		sc.subs = append(sc.subs, cs2)
		old := cs.ptr
		cs2.subOp = h.Do("main", "Subscribe", cs2.id, func() (interface{}, error) {
			cs2.ptr = cs.pub.Subscribe(*old)
			return nil, nil
		})
		cs.alias = cs2
		sc.probes["unsubscribed-value-subscribed-again"]++
	}
	for _, cs := range sc.subs {
		if !cs.lateBind || cs.ptr == nil {
			continue
		}
		// while the callback is still unset, somebody else comes and goes; then the callback is bound through the
		// handle Subscribe returned (all of it before the first Publish): from here on it is a subscriber like any other
		tmp := newSub("main", p, false, "none", 0)
		unsubscribe("main", tmp)
		cs := cs
		cs.ptr.OnNext = func(v int) {
			sc.deliv = append(sc.deliv, c10Deliv{sub: cs.id, val: v, at: s.Stamp(), thread: s.Self().ID})
			s.Yield()
		}
		sc.probes["callback-bound-after-Subscribe"]++
	}
	var m *fpgo.PublisherDef[int]
	var derivedHd *fpgo.HandlerDef
	if sc.Map {
		m = p.Map(func(v int) int { return v + c10MapOffset })
		nodeOf[m] = &c10Node{parent: root, depth: 1}
		switch sc.DerivH {
		case "same":
			m.SubscribeOn(hd)
			nodeOf[m].hTID = sc.hTID
		case "own":
			hd2 := fpgo.Handler.New()
			m.SubscribeOn(hd2)
			got2 := false
			hd2.Post(func() { nodeOf[m].hTID = s.Self().ID; got2 = true })
			s.WaitUntilTimeout(func() bool { return got2 }, time.Minute)
			derivedHd = hd2
		}
		for i := 0; i < sc.NDerive; i++ {
			cs := newSub("main", m, true, "none", 0)
			cs.initial = true
		}
		if sc.Map2 {
			m2 := m.Map(func(v int) int { return v + c10MapOffset })
			nodeOf[m2] = &c10Node{parent: nodeOf[m], depth: 2}
			cs := newSub("main", m2, true, "none", 0)
			cs.initial = true
			cs.level = 2
		}
	}
	other := fpgo.PublisherNewGenerics[int]()
	foreign := other.Subscribe(fpgo.Subscription[int]{OnNext: func(int) {}})
	var ths []*simrt.Thread
	val := -1 // the first published value is 0: the zero value is a value like any other
	for ti, ops := range sc.Threads {
		ops := ops
		name := fmt.Sprintf("t%d", ti)
		ths = append(ths, s.Go(name, func() {
			for _, op := range ops {
				switch op.Kind {
				case "Publish":
					val++
					v := val
					po := h.Do(name, "Publish", v, func() (interface{}, error) { p.Publish(v); return nil, nil })
					sc.pubs = append(sc.pubs, &c10Pub{op: po, val: v, node: root})
				case "PublishMid":
					// a value published INTO the Map-derived publisher: its own subscriptions get v, the
					// publishers derived from it fn(v), the origin's subscriptions nothing
					if m == nil {
						break
					}
					val++
					v := val
					po := h.Do(name, "Publish-into-derived", v, func() (interface{}, error) { m.Publish(v); return nil, nil })
					sc.pubs = append(sc.pubs, &c10Pub{op: po, val: v, node: nodeOf[m]})
				case "Subscribe":
					newSub(name, p, false, "none", 0)
				case "DrainDerived":
					for _, cs := range append([]*c10Sub{}, sc.subs...) {
						if cs.derived && cs.initial {
							unsubscribe(name, cs)
						}
					}
					sc.probes["derived-publisher-drained-then-resubscribed"]++
				case "SubscribeDerived":
					if m != nil {
						newSub(name, m, true, "none", 0)
						sc.probes["run-time-subscription-on-derived-publisher"]++
					}
				case "Map":
					var mk *fpgo.PublisherDef[int]
					h.Do(name, "Map", nil, func() (interface{}, error) {
						mk = p.Map(func(v int) int { return v + c10MapOffset })
						return nil, nil
					})
					if mk != nil {
						nodeOf[mk] = &c10Node{parent: root, depth: 1}
						newSub(name, mk, true, "none", 0)
					}
				case "Unsubscribe":
					if op.Sub == 0 && val%2 == 1 {
						// a subscription of another publisher / a nil pointer: must be a no-op
						h.Do(name, "Unsubscribe-foreign", nil, func() (interface{}, error) { p.Unsubscribe(foreign); p.Unsubscribe(nil); return nil, nil })
					}
					unsubscribe(name, sc.subs[op.Sub])
				}
				s.Yield()
			}
		}))
	}
	done := allDone(ths)
	if !s.WaitUntilTimeout(done, time.Minute) {
		s.SetFair(true)
		if !s.WaitUntilTimeout(done, 10*time.Minute) {
			sc.hung = true
			return
		}
	}
	if hd != nil && sc.CloseH {
		h.Do("main", "Handler.Close", nil, func() (interface{}, error) { hd.Close(); return nil, nil })
		sc.probes["handler-closed-after-last-publish"]++
	}
	s.SetFair(true)
	// the method-style constructor (interface{} element type) gives an equally good publisher
	{
		pi := fpgo.Publisher.New()
		var got []string
		a := pi.Subscribe(fpgo.Subscription[interface{}]{OnNext: func(v interface{}) { got = append(got, fmt.Sprint("a", v)) }})
		pi.Subscribe(fpgo.Subscription[interface{}]{OnNext: func(v interface{}) { got = append(got, fmt.Sprint("b", v)) }})
		op := h.Do("main", "Publisher.New-smoke", nil, func() (interface{}, error) {
			pi.Publish(1)
			pi.Unsubscribe(a)
			pi.Publish("x")
			return nil, nil
		})
		if op.Panic == "" && fmt.Sprint(got) != "[a1 b1 bx]" {
			sc.extra = append(sc.extra, Violation{Clause: "api-smoke", Fingerprint: "Publisher.New", Detail: fmt.Sprintf("Publisher.New(): two subscriptions, Publish(1), Unsubscribe(a), Publish(x) delivered %v, want [a1 b1 bx]", got)})
		}
	}
	// (a Map function that panics once, with the publishers used again afterwards, was tried here and withdrawn: what the library owes after a user callback panicked is not part of the property, DESIGN.md §9, 17)
	if hd != nil && !sc.CloseH {
		// drain: a forwarding callback posts further deliveries when it runs, so go round a few times, through
		// the origin's handler and then the derived publisher's
		for round := 0; round < 3 && !sc.hung; round++ {
			for _, x := range []*fpgo.HandlerDef{hd, derivedHd} {
				if x == nil {
					continue
				}
				d := false
				x.Post(func() { d = true })
				if !s.WaitUntilTimeout(func() bool { return d }, 10*time.Minute) {
					sc.hung = true
				}
			}
		}
	}
	if hd != nil && sc.CloseH {
		s.Sleep(time.Second)
	} else if hd != nil {
		// drain the handler: everything posted before the sentinel has run when it runs
		drained := false
		h.Do("main", "PostSentinel", nil, func() (interface{}, error) { hd.Post(func() { drained = true }); return nil, nil })
		if !s.WaitUntilTimeout(func() bool { return drained }, 10*time.Minute) {
			sc.hung = true
		}
	}
}

func (sc *c10Scenario) Check(res *simrt.Result) []Violation {
	var vs []Violation
	vs = append(vs, goroutinePanics(res)...)
	if sc.h == nil {
		return vs
	}
	vs = append(vs, opPanics(sc.h)...)
	vs = append(vs, sc.extra...)
	mode := "sync"
	if sc.Handler {
		mode = "handler"
	}
	add := func(clause, fp, detail string) {
		vs = append(vs, Violation{Clause: clause, Fingerprint: mode + ":" + fp, Detail: detail})
	}
	if res.Reason != "done" || sc.hung {
		add("hang", "run-did-not-finish", "reason "+res.Reason+"; pending: "+pendingOps(sc.h))
		return dedupe(vs)
	}
	if len(vs) > 0 {
		return dedupe(vs)
	}
	hist := func() string { return histString(sc.h) + fmt.Sprintf("; deliveries(sub,val,at)=%v", sc.delivBrief()) }
	for _, P := range sc.pubs {
		if !P.op.Returned {
			continue
		}
		var mustOrder []*c10Sub
		for _, cs := range sc.subs {
			if cs.subOp == nil || !cs.subOp.Returned {
				continue
			}
			if cs.node == nil || P.node == nil || !cs.node.under(P.node) {
				continue // not downstream of the publisher the value went into (invented deliveries are checked below)
			}
			want := P.val + (cs.node.depth-P.node.depth)*c10MapOffset
			n := 0
			var first c10Deliv
			for _, d := range sc.deliv {
				if d.sub == cs.id && d.val == want {
					if n == 0 {
						first = d
					}
					n++
					// (only the origin has the SubscribeOn handler: a value published straight into a
					// derived publisher is delivered by the publishing thread)
					// the delivery is made by the nearest publisher, from the subscription's own up to the one the value
					// was published into, that has a SubscribeOn handler: on that handler's goroutine
					for n := cs.node; n != nil; n = n.parent {
						if n.hTID != 0 {
							if d.thread != n.hTID {
								fp := "delivery-not-on-handler"
								if n.depth > 0 {
									fp = "delivery-of-derived-publisher-not-on-its-handler"
								}
								add("handler-routing", fp, fmt.Sprintf("OnNext(%d) of subscription %d (publisher at depth %d) ran on thread T%d; the publisher at depth %d on the value's way has SubscribeOn(handler T%d)", d.val, cs.id, cs.node.depth, d.thread, n.depth, n.hTID))
							}
							break
						}
						if n == P.node {
							break
						}
					}
				}
			}
			must := cs.subOp.Ret < P.op.Inv && !cs.placeholder
			// (with a handler the forwarding subscription of a Map-derived publisher runs later, on the
			// handler, and the derived publisher takes its own snapshot then: a subscription made on it
			// after Publish returned may legitimately still see the value)
			mustNot := (cs.subOp.Inv > P.op.Ret && !(cs.derived && sc.Handler)) || cs.placeholder
			if sc.Handler && cs.derived && len(cs.unsubs) > 0 {
				// the forwarding into the derived publisher runs later, on the handler: an Unsubscribe made after
				// Publish returned may still come first
				must = false
			}
			for _, u := range cs.unsubs {
				if u.Inv < P.op.Ret {
					must = false
				}
				if u.Returned && u.Ret < P.op.Inv {
					mustNot = true
				}
				if u.Inv < P.op.Ret && (!u.Returned || u.Ret > P.op.Inv) {
					sc.overlapE = true
				}
			}
			if cs.subOp.Inv < P.op.Ret && cs.subOp.Ret > P.op.Inv {
				sc.overlapE = true
			}
			kind := "subscription"
			if cs.derived {
				kind = "Map-derived subscription"
			}
			switch {
			case n >= 2:
				add("exactly-once", "delivered-twice", fmt.Sprintf("Publish(%d): %s %d got the value %d times; %s", P.val, kind, cs.id, n, hist()))
			case must && n == 0:
				add("exactly-once", "skipped", fmt.Sprintf("Publish(%d): %s %d was registered before the call and not unsubscribed before it returned, but got nothing; %s", P.val, kind, cs.id, hist()))
			case mustNot && n > 0:
				add("exactly-once", "delivered-to-unsubscribed", fmt.Sprintf("Publish(%d): %s %d had been unsubscribed before the call began (or subscribed after it returned) but got the value; %s", P.val, kind, cs.id, hist()))
			}
			if must && n == 1 && cs.initial && !cs.derived {
				mustOrder = append(mustOrder, cs)
				_ = first
			}
		}
		if !sc.Handler {
			// subscription order among the initial subscriptions that must be served
			var last uint64
			lastID := -1
			for _, cs := range mustOrder {
				for _, d := range sc.deliv {
					if d.sub == cs.id && d.val == P.val {
						if d.at < last {
							add("order", "not-in-subscription-order", fmt.Sprintf("Publish(%d): subscription %d was served before subscription %d; %s", P.val, cs.id, lastID, hist()))
						}
						last = d.at
						lastID = cs.id
					}
				}
			}
		}
	}
	if sc.overlapE {
		sc.probes["subscribe-or-unsubscribe-overlapped-publish"]++
	}
	// invented deliveries
	for _, d := range sc.deliv {
		ok := false
		var cs *c10Sub
		if d.sub >= 0 && d.sub < len(sc.subs) {
			cs = sc.subs[d.sub]
		}
		for _, P := range sc.pubs {
			if cs != nil && cs.node != nil && P.node != nil && cs.node.under(P.node) && d.val == P.val+(cs.node.depth-P.node.depth)*c10MapOffset {
				ok = true
			}
		}
		if !ok {
			add("invented", "delivery-of-unpublished-value", fmt.Sprintf("subscription %d got %d, which is not fn^k(v) of any value v published into its publisher or one of that publisher's origins", d.sub, d.val))
		}
	}
	return dedupe(vs)
}

func (sc *c10Scenario) delivBrief() [][3]int {
	var out [][3]int
	for _, d := range sc.deliv {
		out = append(out, [3]int{d.sub, d.val, int(d.at)})
	}
	return out
}
