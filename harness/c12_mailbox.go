package harness

import (
	"fmt"
	"sort"
	"time"

	fpgo "github.com/TeaEntityLab/fpGo/v2"
	"verif.local/simrt"
)

// C12 — Handler and Actor mailboxes run work serially, exactly once, in per-sender order.

func init() {
	register(&Property{
		ID:    "C12",
		Files: []string{"handler.go", "actor.go"},
		Funcs: []string{"HandlerDef", "ActorDef", "ActorNew"},
		Gen:   genC12,
		Rule: "one Handler (New / NewByCh with capacity 0,1,3,8) or an Actor spawn tree (depth <= 3, New / NewByOptions) and 1..8 (thorough 1..16) sender threads each posting a numbered sequence to one or several mailboxes; " +
			"posted functions / effects log begin, yield, end; Close at the end followed by late Post/Send; oracles: exactly-once by the fair settle horizon, no overlap per mailbox, per-sender order, " +
			"effect receives its own actor, parent/child registry, no cross-delivery, nothing submitted after Close runs; non-trivial = >=2 senders interleaved on one mailbox; distinct = distinct context-switch signature" +
			" Flavours: messages submitted through unawaited AskChannel or AskOnceWithTimeout(<=0), Close while senders are active, a handler / an actor closed from inside (by a posted function / by the effect) while senders are blocked or a backlog is buffered, the default Handler (package init re-run inside the simulation), the closed default Actor and orphans spawned from closed parents.",
		Real:        []string{"fpgo.HandlerDef (run goroutine)", "fpgo.ActorDef (run goroutine, Spawn, registry)"},
		Stub:        []string{"goroutine scheduler", "clock (advanced by >=1ns before each Spawn: actor ids are time.Now())", "posted functions / effects"},
		Assumptions: []string{"actor ids are time.Now(); the harness advances the fake clock by 1ns before each actor creation (a real monotonic clock never returns the same reading twice to one goroutine)"},
	})
}

type c12Scenario struct {
	Kind          string  `json:"kind"` // handler | actor
	Cap           int     `json:"cap"`
	Default       bool    `json:"default_handler,omitempty"`
	Tree          []int   `json:"tree,omitempty"` // parent index of actor i (actor 0 is the root, parent -1)
	Senders       [][]int `json:"senders"`        // per sender: target mailbox index of each item
	Yields        int     `json:"yields_in_work"`
	AskEvery      int     `json:"every_nth_message_is_an_unawaited_ask,omitempty"`
	NilMsgs       bool    `json:"a_nil_message_to_every_actor,omitempty"`
	Early         bool    `json:"close_while_senders_active"`
	EarlyD        int     `json:"close_delay_yields,omitempty"`
	SelfClose     bool    `json:"closed_from_inside_the_effect,omitempty"`
	SelfCloseItem int     `json:"self_close_at_item,omitempty"`

	probes    map[string]int
	h         *Hist
	items     []*c12Item
	extra     []Violation
	hung      bool
	closeRet  uint64
	closeInv  uint64
	nMailbox  int
	nilOps    [][]*Op // per mailbox: the Send(nil) calls
	nilGot    []int   // per mailbox: nil messages the effect received
	interleav bool
}

type c12Item struct {
	id      int
	sender  int
	idx     int
	mailbox int
	sub     *Op
	begins  []uint64
	ends    []uint64
	gotSelf []int // mailbox index of the actor passed to the effect
	late    bool
}

func genC12(t *simrt.Tape, tier string) Scenario {
	sc := &c12Scenario{probes: map[string]int{}}
	sc.Kind = []string{"handler", "actor"}[t.Choose(2)]
	sc.Cap = []int{0, 1, 3, 8}[t.Choose(4)]
	sc.Default = sc.Kind == "handler" && t.Bool(1, 5)
	maxS, maxItems := 4, 4
	if tier == "thorough" {
		if t.Bool(1, 3) {
			maxS, maxItems = 16, 2
		} else {
			maxS, maxItems = 8, 5
		}
	}
	sc.nMailbox = 1
	if sc.Kind == "actor" {
		n := 1 + t.Choose(5)
		sc.Tree = []int{-1}
		depth := []int{0}
		for i := 1; i < n; i++ {
			p := t.Choose(i)
			if depth[p] >= 3 {
				p = 0
			}
			sc.Tree = append(sc.Tree, p)
			depth = append(depth, depth[p]+1)
		}
		sc.nMailbox = n
	}
	ns := 1 + t.Choose(maxS)
	for i := 0; i < ns; i++ {
		n := 1 + t.Choose(maxItems)
		var it []int
		for k := 0; k < n; k++ {
			it = append(it, t.Choose(sc.nMailbox))
		}
		sc.Senders = append(sc.Senders, it)
	}
	sc.Yields = t.Choose(3)
	if sc.Kind == "actor" && t.Bool(1, 3) {
		sc.AskEvery = 2 + t.Choose(2)
	}
	sc.NilMsgs = sc.Kind == "actor" && t.Bool(1, 3)
	if t.Bool(1, 3) {
		// Close while senders are still active / a backlog is buffered: everything whose Post/Send
		// returned before Close was invoked must still be processed exactly once
		sc.Early = true
		sc.EarlyD = t.Choose(16)
	} else if sc.nMailbox == 1 && t.Bool(1, 3) {
		// ... or the mailbox is closed from inside: by a posted function (handler) / by the effect (actor) while it
		// processes one of the items (senders may be blocked at that moment, a backlog may be buffered)
		sc.Early = true
		sc.SelfClose = true
		total := 0
		for _, it := range sc.Senders {
			total += len(it)
		}
		sc.SelfCloseItem = t.Choose(total)
	}
	return sc
}

func (sc *c12Scenario) Describe() interface{} { return sc }
func (sc *c12Scenario) Config() simrt.Config {
	return simrt.Config{Horizon: time.Hour, MaxSteps: 300000, NoStall: false}
}
func (sc *c12Scenario) Probes() map[string]int { return sc.probes }
func (sc *c12Scenario) Nontrivial(res *simrt.Result) bool {
	return sc.interleav
}

func (sc *c12Scenario) Run(s *simrt.Sim) {
	h := &Hist{S: s}
	var doClose func(who string)
	work := func(it *c12Item, self int) {
		it.begins = append(it.begins, s.Stamp())
		it.gotSelf = append(it.gotSelf, self)
		for i := 0; i < sc.Yields; i++ {
			s.Yield()
		}
		it.ends = append(it.ends, s.Stamp())
		if sc.SelfClose && it.id == sc.SelfCloseItem && sc.closeInv == 0 && doClose != nil {
			// the mailbox is closed from inside: by the posted function / by the effect handling this message
			doClose("mailbox-goroutine")
			sc.probes["mailbox-closed-from-inside"]++
		}
	}
	var submit func(name string, it *c12Item)
	var closeAll func()
	var hd *fpgo.HandlerDef
	var actors []*fpgo.ActorDef[interface{}]
	if sc.Kind == "handler" {
		if sc.Default {
			// the library's default Handler: the package's init functions are re-run inside this
			// simulation (SimReinit exists in the instrumented copy only), so that the default instance
			// and the goroutine(s) serving it are simulated threads
			fpgo.SimReinit()
			hd = fpgo.Handler.GetDefault()
			if t0 := (&fpgo.HandlerDef{}).GetDefault(); t0 != hd {
				sc.extra = append(sc.extra, Violation{Clause: "api-smoke", Fingerprint: "GetDefault-differs", Detail: "GetDefault() returns different handlers depending on the receiver"})
			}
		} else if sc.Cap == 0 {
			hd = fpgo.Handler.New()
		} else {
			hd = fpgo.Handler.NewByCh(make(chan func(), sc.Cap))
		}
		submit = func(name string, it *c12Item) {
			it.sub = h.Do(name, "Post", it.id, func() (interface{}, error) {
				hd.Post(func() { work(it, 0) })
				return nil, nil
			})
		}
		closeAll = func() { hd.Close() }
	} else {
		index := map[*fpgo.ActorDef[interface{}]]int{}
		effect := func(self *fpgo.ActorDef[interface{}], in interface{}) {
			me, ok := index[self]
			if !ok {
				me = -1
			}
			msg := -1
			switch m := in.(type) {
			case int:
				msg = m
			case *fpgo.AskDef[int, int]:
				// a question submitted through the Ask API is an ordinary message of its sender
				msg = m.Message
				defer m.Reply(msg)
			case nil:
				// nil is a message like any other (counted: every nil that was sent arrives, none is invented)
				if me >= 0 && me < len(sc.nilGot) {
					sc.nilGot[me]++
				}
				return
			default:
				sc.extra = append(sc.extra, Violation{Clause: "exactly-once", Fingerprint: "actor:message-nobody-sent", Detail: fmt.Sprintf("actor %d's effect was called with %T %v, which nobody sent", me, in, in)})
			}
			if msg >= 0 && msg < len(sc.items) {
				work(sc.items[msg], me)
			}
		}
		for i, p := range sc.Tree {
			s.Sleep(time.Nanosecond) // distinct time.Now() ids
			var a *fpgo.ActorDef[interface{}]
			switch {
			case p < 0 && sc.Cap == 0 && sc.Yields == 1:
				a = (&fpgo.ActorDef[interface{}]{}).New(effect) // method-style constructor
			case p < 0 && sc.Cap == 0:
				a = fpgo.ActorNewGenerics(effect)
			case p < 0 && sc.Yields == 1:
				a = (&fpgo.ActorDef[interface{}]{}).NewByOptions(effect, make(chan interface{}, sc.Cap), map[string]interface{}{})
			case p < 0:
				a = fpgo.ActorNewByOptionsGenerics(effect, make(chan interface{}, sc.Cap), map[string]interface{}{})
			default:
				a = actors[p].Spawn(effect)
			}
			actors = append(actors, a)
			index[a] = i
		}
		// a child that was closed stays registered under its (open) parent, also after the parent spawned again
		{
			s.Sleep(time.Nanosecond)
			gone := actors[0].Spawn(effect)
			gone.Close()
			s.Sleep(time.Nanosecond)
			next := actors[0].Spawn(effect)
			if actors[0].GetChild(gone.GetID()) != gone || gone.GetParent() != actors[0] || actors[0].GetChild(next.GetID()) != next {
				sc.extra = append(sc.extra, Violation{Clause: "registry", Fingerprint: "closed-child-unregistered-by-a-later-Spawn", Detail: "Spawn, Close of that child, Spawn again on the same open parent: GetChild/GetParent no longer connect the closed child and its parent (or the new child is not registered)"})
			}
			next.Close()
		}
		// registry checks
		for i, p := range sc.Tree {
			a := actors[i]
			if p < 0 {
				if a.GetParent() != nil {
					sc.extra = append(sc.extra, Violation{Clause: "registry", Fingerprint: "root-has-parent", Detail: "a root actor reports a parent"})
				}
				continue
			}
			if a.GetParent() != actors[p] {
				sc.extra = append(sc.extra, Violation{Clause: "registry", Fingerprint: "GetParent", Detail: fmt.Sprintf("actor %d: GetParent() is not its spawner %d", i, p)})
			}
			if actors[p].GetChild(a.GetID()) != a {
				sc.extra = append(sc.extra, Violation{Clause: "registry", Fingerprint: "GetChild", Detail: fmt.Sprintf("actor %d is not registered under its parent %d", i, p)})
			}
			for j := range sc.Tree {
				if j != p && j != i && actors[j].GetChild(a.GetID()) == a {
					sc.extra = append(sc.extra, Violation{Clause: "registry", Fingerprint: "GetChild-foreign", Detail: fmt.Sprintf("actor %d is registered under %d, which is not its parent", i, j)})
				}
			}
		}
		submit = func(name string, it *c12Item) {
			a := actors[it.mailbox]
			if sc.AskEvery > 0 && it.id%sc.AskEvery == 0 && !it.late {
				// submitted as a question whose answer the sender does not wait for
				if it.id%(2*sc.AskEvery) == 0 {
					// ... or a question asked with no patience at all (timeout 0 or negative): the question is
					// still a message that was sent, whatever the asker gets back
					it.sub = h.Do(name, "AskOnceWithTimeout(<=0)", it.id, func() (interface{}, error) {
						fpgo.AskNewGenerics[int, int](it.id).AskOnceWithTimeout(a, time.Duration(-(it.id % 3)))
						return nil, nil
					})
					sc.probes["message-submitted-through-AskOnceWithTimeout-0"]++
					return
				}
				it.sub = h.Do(name, "AskChannel", it.id, func() (interface{}, error) {
					fpgo.AskNewGenerics[int, int](it.id).AskChannel(a)
					return nil, nil
				})
				sc.probes["message-submitted-through-AskChannel"]++
				return
			}
			it.sub = h.Do(name, "Send", it.id, func() (interface{}, error) { a.Send(it.id); return nil, nil })
		}
		closeAll = func() {
			for i, a := range actors {
				if a.IsClosed() {
					sc.extra = append(sc.extra, Violation{Clause: "registry", Fingerprint: "IsClosed-before-close", Detail: fmt.Sprintf("actor %d reports IsClosed() before Close", i)})
				}
				a.Close()
				if !a.IsClosed() {
					sc.extra = append(sc.extra, Violation{Clause: "registry", Fingerprint: "IsClosed-after-close", Detail: fmt.Sprintf("actor %d reports !IsClosed() after Close", i)})
				}
			}
		}
	}
	// items are created up front so that effects can index them
	for si, targets := range sc.Senders {
		for k, mb := range targets {
			sc.items = append(sc.items, &c12Item{id: len(sc.items), sender: si, idx: k, mailbox: mb})
		}
	}
	nNormal := len(sc.items)
	lateBase := nNormal
	for mb := 0; mb < sc.nMailbox; mb++ {
		sc.items = append(sc.items, &c12Item{id: len(sc.items), sender: -1, mailbox: mb, late: true})
	}
	var ths []*simrt.Thread
	pos := 0
	for si, targets := range sc.Senders {
		name := fmt.Sprintf("sender%d", si)
		mine := sc.items[pos : pos+len(targets)]
		pos += len(targets)
		ths = append(ths, s.Go(name, func() {
			for _, it := range mine {
				submit(name, it)
				s.Yield()
			}
		}))
	}
	sc.nilGot = make([]int, sc.nMailbox)
	sc.nilOps = make([][]*Op, sc.nMailbox)
	if sc.NilMsgs {
		ths = append(ths, s.Go("nil-sender", func() {
			for mb := range actors {
				a := actors[mb]
				sc.nilOps[mb] = append(sc.nilOps[mb], h.Do("nil-sender", "Send(nil)", mb, func() (interface{}, error) { a.Send(nil); return nil, nil }))
				s.Yield()
			}
		}))
		sc.probes["nil-messages-sent"]++
	}
	sendersDone := allDone(ths)
	doClose = func(who string) {
		sc.closeInv = s.Stamp()
		op := h.Do(who, "Close", nil, func() (interface{}, error) { closeAll(); return nil, nil })
		sc.closeInv, sc.closeRet = op.Inv, op.Ret
	}
	if sc.Early && !sc.SelfClose {
		s.Fault("close-while-senders-active")
		s.Go("closer", func() {
			for i := 0; i < sc.EarlyD; i++ {
				s.YieldHard()
			}
			doClose("closer")
		})
	}
	mustRun := func(it *c12Item) bool {
		if !sc.Early {
			return true
		}
		return it.sub != nil && it.sub.Returned && sc.closeInv != 0 && it.sub.Ret < sc.closeInv
	}
	allProcessed := func() bool {
		if !sendersDone() || (sc.Early && sc.closeRet == 0) {
			return false
		}
		for _, it := range sc.items[:nNormal] {
			if mustRun(it) && len(it.ends) == 0 {
				return false
			}
		}
		return true
	}
	if !s.WaitUntilTimeout(allProcessed, time.Minute) {
		s.SetFair(true)
		if !s.WaitUntilTimeout(allProcessed, 10*time.Minute) {
			sc.hung = true
		}
	}
	s.SetFair(true)
	if !sc.Early {
		doClose("main")
	}
	if sc.Kind == "handler" && sc.Default {
		// asking for the default Handler again after it was closed yields the same, closed Handler
		// (what is posted to it afterwards - below - must not run)
		if again := fpgo.Handler.GetDefault(); again != hd {
			sc.extra = append(sc.extra, Violation{Clause: "ran-after-close", Fingerprint: "GetDefault-after-Close", Detail: "after Close, GetDefault() returned another Handler than before"})
		}
		sc.probes["default-handler-asked-for-again-after-close"]++
	}
	for mb := 0; mb < sc.nMailbox; mb++ {
		submit("main", sc.items[lateBase+mb])
	}
	if sc.Kind == "actor" {
		// Spawn on a closed parent: the child is independent and not registered
		s.Sleep(time.Nanosecond)
		orphanGot := 0
		child := actors[0].Spawn(func(_ *fpgo.ActorDef[interface{}], m interface{}) { orphanGot += m.(int) })
		if child.GetParent() != nil || actors[0].GetChild(child.GetID()) != nil {
			sc.extra = append(sc.extra, Violation{Clause: "registry", Fingerprint: "spawn-on-closed-parent", Detail: "Spawn on a closed parent registered the child"})
		}
		// ... but it is an independent, working mailbox
		sender := s.Go("orphan-sender", func() {
			h.Do("orphan-sender", "Send", 5, func() (interface{}, error) { child.Send(5); return nil, nil })
		})
		if !s.WaitUntilTimeout(func() bool { return sender.Done() && orphanGot == 5 }, time.Minute) {
			sc.extra = append(sc.extra, Violation{Clause: "exactly-once", Fingerprint: "actor:orphan-child-not-processing", Detail: fmt.Sprintf("an actor spawned from a closed parent did not process the message sent to it (sender returned=%v, effect saw %d)", sender.Done(), orphanGot)})
		} else {
			child.Close()
		}
		// the library's default Actor instance is a closed placeholder: a factory for New/Spawn; a message sent to
		// it is dropped without blocking anybody; an actor spawned from it is independent, unregistered and working
		def := fpgo.Actor.GetDefault()
		if def == nil || !def.IsClosed() || (&fpgo.ActorDef[int]{}).GetDefault() != def {
			sc.extra = append(sc.extra, Violation{Clause: "registry", Fingerprint: "default-actor", Detail: "Actor.GetDefault() is nil, not closed, or differs by receiver"})
		} else {
			s.Sleep(time.Nanosecond)
			defGot := 0
			dchild := def.Spawn(func(self *fpgo.ActorDef[interface{}], m interface{}) { defGot += m.(int) })
			dsender := s.Go("default-actor-sender", func() {
				h.Do("default-actor-sender", "Send-to-default", 1, func() (interface{}, error) { def.Send(1); return nil, nil })
				h.Do("default-actor-sender", "Send", 7, func() (interface{}, error) { dchild.Send(7); return nil, nil })
			})
			if !s.WaitUntilTimeout(func() bool { return dsender.Done() && defGot == 7 }, time.Minute) {
				sc.extra = append(sc.extra, Violation{Clause: "exactly-once", Fingerprint: "actor:child-of-default-actor-not-processing", Detail: fmt.Sprintf("Send to the closed default Actor blocked, or an actor spawned from it did not process its message (sender returned=%v, effect saw %d)", dsender.Done(), defGot)})
			} else {
				if dchild.GetParent() != nil || def.GetChild(dchild.GetID()) != nil {
					sc.extra = append(sc.extra, Violation{Clause: "registry", Fingerprint: "spawn-on-default-actor", Detail: "Spawn on the closed default Actor registered the child"})
				}
				dchild.Close()
			}
		}
	}
	s.Sleep(time.Second)
	sc.h = h
}

func (sc *c12Scenario) Check(res *simrt.Result) []Violation {
	var vs []Violation
	vs = append(vs, goroutinePanics(res)...)
	if sc.h != nil {
		vs = append(vs, opPanics(sc.h)...)
	}
	vs = append(vs, sc.extra...)
	add := func(clause, fp, detail string) {
		vs = append(vs, Violation{Clause: clause, Fingerprint: sc.Kind + ":" + fp, Detail: detail})
	}
	for mb := range sc.nilOps {
		must, tried := 0, len(sc.nilOps[mb])
		for _, op := range sc.nilOps[mb] {
			if op.Returned && op.Panic == "" && (!sc.Early || (sc.closeInv != 0 && op.Ret < sc.closeInv)) {
				must++
			}
		}
		if sc.nilGot[mb] > tried {
			add("exactly-once", "nil-message-nobody-sent", fmt.Sprintf("actor %d received %d nil messages, %d were sent", mb, sc.nilGot[mb], tried))
		}
		if sc.nilGot[mb] < must && res.Reason == "done" && !sc.hung {
			add("exactly-once", "nil-message-never-processed", fmt.Sprintf("actor %d received %d nil messages; %d Send(nil) calls had returned before Close was invoked (a nil is a message like any other)", mb, sc.nilGot[mb], must))
		}
	}
	if res.Reason != "done" {
		add("hang", "run-did-not-finish", "run ended with reason "+res.Reason)
		return dedupe(vs)
	}
	desc := func(it *c12Item) string {
		return fmt.Sprintf("item %d (sender %d #%d -> mailbox %d) begins=%v ends=%v", it.id, it.sender, it.idx, it.mailbox, it.begins, it.ends)
	}
	type iv struct {
		b, e uint64
		it   *c12Item
	}
	perMB := map[int][]iv{}
	for _, it := range sc.items {
		if it.late {
			if len(it.begins) > 0 {
				add("ran-after-close", "late-item-ran", desc(it)+": submitted after Close returned")
			}
			continue
		}
		must := true
		if sc.Early {
			must = it.sub != nil && it.sub.Returned && sc.closeInv != 0 && it.sub.Ret < sc.closeInv
			if it.sub != nil && sc.closeRet != 0 && it.sub.Inv > sc.closeRet && len(it.begins) > 0 {
				add("ran-after-close", "item-submitted-after-close-ran", desc(it)+": submitted after Close returned")
			}
			if must {
				sc.probes["accepted-before-early-close"]++
			}
		}
		switch {
		case len(it.begins) == 0 && !must:
			// submitted while or after the mailbox was being closed: may be dropped
		case len(it.begins) == 0:
			why := "never processed within the fair settle horizon"
			if sc.Early {
				why = "its Post/Send had returned before Close was invoked, but it was never processed (backlog dropped at Close?)"
			}
			add("exactly-once", "never-processed", desc(it)+": "+why)
		case len(it.begins) > 1:
			add("exactly-once", "processed-twice", desc(it))
		case len(it.ends) == 0:
			add("exactly-once", "never-finished", desc(it))
		}
		for k := range it.begins {
			if sc.Kind == "actor" && it.gotSelf[k] != it.mailbox {
				add("routing", "effect-got-wrong-actor", fmt.Sprintf("%s: the effect received actor %d", desc(it), it.gotSelf[k]))
			}
			e := uint64(1<<63 - 1)
			if k < len(it.ends) {
				e = it.ends[k]
			}
			mb := it.mailbox
			if sc.Kind == "actor" && it.gotSelf[k] >= 0 {
				mb = it.gotSelf[k] // serial execution is per processing actor
			}
			perMB[mb] = append(perMB[mb], iv{it.begins[k], e, it})
		}
	}
	for mb, ivs := range perMB {
		sort.Slice(ivs, func(i, j int) bool { return ivs[i].b < ivs[j].b })
		for i := 1; i < len(ivs); i++ {
			if ivs[i].b < ivs[i-1].e {
				add("overlap", "two-items-at-once", fmt.Sprintf("mailbox %d processed %s and %s at the same time", mb, desc(ivs[i-1].it), desc(ivs[i].it)))
			}
			if ivs[i].it.sender != ivs[i-1].it.sender {
				// items of different senders alternate on one mailbox
				if ivs[i].it.sub != nil && ivs[i-1].it.sub != nil && ivs[i].it.sub.Inv < ivs[i-1].it.sub.Ret {
					sc.interleav = true
				}
			}
		}
	}
	if sc.interleav {
		sc.probes["senders-interleaved-on-one-mailbox"]++
	}
	// per-sender order on each mailbox
	for _, a := range sc.items {
		for _, b := range sc.items {
			if a.late || b.late || a.sender != b.sender || a.mailbox != b.mailbox || a.idx >= b.idx {
				continue
			}
			if len(a.begins) > 0 && len(b.begins) > 0 && b.begins[0] < a.begins[0] {
				add("order", "per-sender-order", fmt.Sprintf("%s was submitted before %s by the same sender but processed after it", desc(a), desc(b)))
			}
		}
	}
	if sc.hung && len(vs) == 0 {
		add("hang", "senders-or-items-pending", "not all senders returned / items processed within the fair settle horizon")
	}
	return dedupe(vs)
}
