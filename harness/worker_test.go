package harness

import (
	"encoding/binary"
	"encoding/json"
	"fmt"
	"os"
	"runtime"
	"strconv"
	"strings"
	"testing"
	"time"

	"verif.local/simrt"
)

// RunOut is the outcome of one simulated run.
type RunOut struct {
	Property   string        `json:"property"`
	Tier       string        `json:"tier"`
	Seed       uint64        `json:"seed"`
	ScenTape   []simrt.Entry `json:"scenario_tape"`
	SchedTape  []simrt.Entry `json:"schedule_tape"`
	Violations []Violation   `json:"violations,omitempty"`
	Scenario   interface{}   `json:"scenario,omitempty"`
	Trace      []string      `json:"trace,omitempty"`
	Hash       string        `json:"hash"`
	Sig        string        `json:"sig"`
	Reason     string        `json:"reason"`
	Steps      int           `json:"steps"`
	Procs      int           `json:"gomaxprocs"` // GOMAXPROCS of the worker process (code under test may consult it)
	Switches   int           `json:"switches"`
	Yields     int64         `json:"yields"`
	VTimeNs    int64         `json:"vtime_ns"`
	Strategy   string        `json:"strategy"`
	Tool       string        `json:"tool_error,omitempty"`
	Nontrivial bool          `json:"nontrivial"`
	faults     map[string]int
	probes     map[string]int
}

// Stats is what a search worker reports at the end.
type Stats struct {
	Runs         int             `json:"runs"`
	Violating    int             `json:"violating_runs"`
	Nontrivial   int             `json:"nontrivial_runs"`
	Steps        int64           `json:"steps"`
	Yields       int64           `json:"yields"`
	Switches     int64           `json:"switches"`
	VTimeNs      int64           `json:"vtime_ns"`
	Faults       map[string]int  `json:"faults"`
	Probes       map[string]int  `json:"probes"`
	Strategies   map[string]int  `json:"strategies"`
	Reasons      map[string]int  `json:"reasons"`
	Sigs         []string        `json:"sigs"`
	Pairs        int             `json:"preemption_site_pairs"`
	PairList     []string        `json:"pair_list,omitempty"`
	Samples      []interface{}   `json:"samples"`
	WallS        float64         `json:"wall_s"`
	ToolErrors   []string        `json:"tool_errors,omitempty"`
	FirstSeed    uint64          `json:"first_seed"`
	LastSeed     uint64          `json:"last_seed"`
	MaxThreads   int             `json:"max_threads"`
	Inconclusive int             `json:"inconclusive"`
	SitesHit     map[string]bool `json:"sites_hit,omitempty"`
	// NextK > 0: the process stopped early because its memory grew past SIM_MEM_MB (goroutines left
	// blocked at the end of a simulation can never be released); the driver starts a fresh process
	// with SIM_FROM = NextK
	NextK int `json:"next_k,omitempty"`
}

func splitmix(x uint64) uint64 {
	x += 0x9E3779B97F4A7C15
	z := x
	z = (z ^ (z >> 30)) * 0xBF58476D1CE4E5B9
	z = (z ^ (z >> 27)) * 0x94D049BB133111EB
	return z ^ (z >> 31)
}

// runOnce executes one run. scen/sched nil = generate from seed.
func runOnce(t *testing.T, p *Property, tier string, seed uint64, scen, sched []simrt.Entry, strict, trace bool) *RunOut {
	var st, ct *simrt.Tape
	if scen != nil || sched != nil {
		st = simrt.NewReplayTape(scen, strict)
		ct = simrt.NewReplayTape(sched, strict)
	} else {
		st = simrt.NewGenTape(splitmix(seed ^ 0x5ce9a710))
		ct = simrt.NewGenTape(splitmix(seed ^ 0x0c4ed01e))
	}
	out := &RunOut{Property: p.ID, Tier: tier, Seed: seed}
	var sc Scenario
	func() {
		defer func() {
			if r := recover(); r != nil {
				out.Tool = fmt.Sprintf("scenario generator panicked: %v", r)
			}
		}()
		sc = p.Gen(st, tier)
	}()
	if sc == nil {
		return out
	}
	cfg := sc.Config()
	cfg.Trace = trace
	res := simrt.Run(t, cfg, ct, sc.Run)
	out.ScenTape = st.Rec
	out.SchedTape = ct.Rec
	out.Scenario = sc.Describe()
	out.Hash = fmt.Sprintf("%016x", res.Hash)
	out.Sig = fmt.Sprintf("%016x", res.SigHash)
	out.Reason = res.Reason
	out.Steps = res.Steps
	out.Procs = runtime.GOMAXPROCS(0)
	out.Switches = res.Switches
	out.Yields = res.Yields
	out.VTimeNs = int64(res.VTime)
	out.Strategy = res.Strategy
	out.Trace = res.Trace
	out.faults = res.Faults
	if res.Panic != nil {
		out.Tool = fmt.Sprintf("simulator panic: %v", res.Panic)
		return out
	}
	if strict && (st.Drift || ct.Drift) {
		out.Tool = "NONDETERMINISM: strict replay drew a choice with a different arity than recorded"
		return out
	}
	func() {
		defer func() {
			if r := recover(); r != nil {
				out.Tool = fmt.Sprintf("oracle panicked: %v", r)
			}
		}()
		out.Violations = sc.Check(res)
		out.probes = sc.Probes()
		out.Nontrivial = sc.Nontrivial(res)
	}()
	if sg, ok := sc.(Signer); ok && out.Tool == "" {
		// scenarios without thread interleavings define their own notion of "distinct case"
		hsh := uint64(1469598103934665603)
		for _, b := range []byte(sg.Signature(res)) {
			hsh ^= uint64(b)
			hsh *= 1099511628211
		}
		out.Sig = fmt.Sprintf("%016x", hsh)
	}
	if res.Reason == "maxsteps" {
		// a run that hit the cap on scheduler decisions is inconclusive: "did not finish" verdicts
		// drawn from it are dropped (a spin in the code under test ends as "maxyields" instead)
		var keep []Violation
		for _, v := range out.Violations {
			if v.Clause != "hang" && v.Clause != "termination" && v.Clause != "livelock" {
				keep = append(keep, v)
			}
		}
		out.Violations = keep
	}
	if res.Reason == "maxsteps" && len(out.Violations) == 0 {
		// a run that hit the step cap is inconclusive, never a verdict
		out.Reason = "maxsteps"
	}
	return out
}

func classOf(v Violation) string { return v.Clause + "|" + v.Fingerprint }

func hasClass(vs []Violation, class string) bool {
	for _, v := range vs {
		if classOf(v) == class {
			return true
		}
	}
	return false
}

func envInt(name string, def int) int {
	if v := os.Getenv(name); v != "" {
		if n, err := strconv.Atoi(v); err == nil {
			return n
		}
	}
	return def
}

func envU64(name string, def uint64) uint64 {
	if v := os.Getenv(name); v != "" {
		if n, err := strconv.ParseUint(v, 10, 64); err == nil {
			return n
		}
	}
	return def
}

// TestWorker is the entry point used by cmd/simcheck. It does nothing without SIM_MODE.
func TestWorker(t *testing.T) {
	mode := os.Getenv("SIM_MODE")
	if mode == "" {
		t.Skip("SIM_MODE not set")
	}
	p := registry[os.Getenv("SIM_PROP")]
	if p == nil {
		fmt.Fprintf(os.Stderr, "unknown property %q\n", os.Getenv("SIM_PROP"))
		os.Exit(2)
	}
	// Goroutines started by package init functions (the default Handler) run in pass-through
	// mode; let them reach their (permanent) blocking point before a simulation becomes active.
	time.Sleep(30 * time.Millisecond)
	tier := os.Getenv("SIM_TIER")
	if tier == "" {
		tier = "quick"
	}
	outPath := os.Getenv("SIM_OUT")
	outF, err := os.Create(outPath)
	if err != nil {
		fmt.Fprintln(os.Stderr, err)
		os.Exit(2)
	}
	defer outF.Close()
	enc := json.NewEncoder(outF)
	switch mode {
	case "meta":
		enc.Encode(map[string]interface{}{"type": "meta", "meta": map[string]interface{}{"rule": p.Rule, "real": p.Real, "stub": p.Stub, "assumptions": p.Assumptions}})
	case "search":
		workerSearch(t, p, tier, enc)
	case "replay":
		workerReplay(t, p, tier, enc)
	case "shrink":
		workerShrink(t, p, tier, enc)
	case "hashes":
		workerHashes(t, p, tier, enc)
	default:
		fmt.Fprintf(os.Stderr, "unknown SIM_MODE %q\n", mode)
		os.Exit(2)
	}
	simrt.Deactivate()
	CleanupScratch()
}

func workerSearch(t *testing.T, p *Property, tier string, enc *json.Encoder) {
	base := envU64("SIM_SEED", 1)
	idx := envInt("SIM_WORKER", 0)
	nw := envInt("SIM_WORKERS", 1)
	runs := envInt("SIM_RUNS", 100)
	wall := time.Duration(envInt("SIM_WALL_S", 60)) * time.Second
	maxViol := envInt("SIM_MAX_VIOL", 12)
	start := time.Now()
	st := &Stats{Faults: map[string]int{}, Probes: map[string]int{}, Strategies: map[string]int{}, Reasons: map[string]int{}}
	var sigs []uint64
	classes := map[string]int{}
	pairs := map[string]bool{}
	from := envInt("SIM_FROM", 0)
	memLimit := uint64(envInt("SIM_MEM_MB", 1200)) << 20
	var ms runtime.MemStats
	for k := from; idx+k*nw < runs; k++ {
		i := idx + k*nw
		if time.Since(start) > wall {
			break
		}
		if (k-from)%256 == 255 {
			runtime.ReadMemStats(&ms)
			if ms.Sys-ms.HeapReleased > memLimit {
				st.NextK = k
				break
			}
		}
		seed := splitmix(base*1000003 + uint64(i))
		if st.Runs == 0 {
			st.FirstSeed = seed
		}
		st.LastSeed = seed
		out := runOnce(t, p, tier, seed, nil, nil, false, false)
		st.Runs++
		if out.Tool != "" {
			st.ToolErrors = append(st.ToolErrors, fmt.Sprintf("seed %d: %s", seed, out.Tool))
			if len(st.ToolErrors) > 5 {
				break
			}
			continue
		}
		st.Steps += int64(out.Steps)
		st.Yields += out.Yields
		st.Switches += int64(out.Switches)
		st.VTimeNs += out.VTimeNs
		st.Strategies[out.Strategy]++
		st.Reasons[out.Reason]++
		for k, v := range out.faults {
			st.Faults[k] += v
		}
		for k, v := range out.probes {
			st.Probes[k] += v
		}
		if out.Reason == "maxsteps" {
			st.Inconclusive++
		}
		if out.Nontrivial {
			st.Nontrivial++
			if v, err := strconv.ParseUint(out.Sig, 16, 64); err == nil {
				sigs = append(sigs, v)
			}
		}
		if len(st.Samples) < 2 && out.Nontrivial {
			st.Samples = append(st.Samples, map[string]interface{}{"seed": seed, "scenario": out.Scenario, "steps": out.Steps,
				"context_switches": out.Switches, "strategy": out.Strategy, "virtual_time": time.Duration(out.VTimeNs).String(), "reason": out.Reason})
		}
		if len(out.Violations) > 0 {
			st.Violating++
			c := classOf(out.Violations[0])
			classes[c]++
			if classes[c] <= 3 && len(classes) <= maxViol {
				enc.Encode(map[string]interface{}{"type": "violation", "run": out})
			}
		}
	}
	// signatures of the non-trivial runs go to a binary side file (8 bytes each); the driver
	// merges the files of all workers and counts the distinct ones
	buf := make([]byte, 0, 8*len(sigs))
	for _, v := range sigs {
		buf = binary.LittleEndian.AppendUint64(buf, v)
	}
	os.WriteFile(os.Getenv("SIM_OUT")+".sigs", buf, 0o644)
	st.Pairs = len(pairs)
	// reach: which instrumented statements of the property's files were executed by simulated threads
	st.SitesHit = map[string]bool{}
	for name, hit := range simrt.SiteHits() {
		for _, f := range p.Files {
			if !strings.HasPrefix(name, f+":") {
				continue
			}
			fields := strings.Fields(name)
			if len(fields) < 2 {
				continue
			}
			for _, fn := range p.Funcs {
				if strings.Contains(fields[1], fn) {
					st.SitesHit[name] = hit
					break
				}
			}
		}
	}
	st.WallS = time.Since(start).Seconds()
	enc.Encode(map[string]interface{}{"type": "stats", "stats": st})
}

type replayIn struct {
	Property  string        `json:"property"`
	Tier      string        `json:"tier"`
	Seed      uint64        `json:"seed"`
	ScenTape  []simrt.Entry `json:"scenario_tape"`
	SchedTape []simrt.Entry `json:"schedule_tape"`
	Clause    string        `json:"clause"`
	Fingerpr  string        `json:"fingerprint"`
}

func readReplayIn() *replayIn {
	b, err := os.ReadFile(os.Getenv("SIM_IN"))
	if err != nil {
		fmt.Fprintln(os.Stderr, err)
		os.Exit(2)
	}
	var in replayIn
	if err := json.Unmarshal(b, &in); err != nil {
		fmt.Fprintln(os.Stderr, err)
		os.Exit(2)
	}
	if in.ScenTape == nil {
		in.ScenTape = []simrt.Entry{}
	}
	if in.SchedTape == nil {
		in.SchedTape = []simrt.Entry{}
	}
	return &in
}

func workerReplay(t *testing.T, p *Property, tier string, enc *json.Encoder) {
	in := readReplayIn()
	if in.Tier != "" {
		tier = in.Tier
	}
	strict := os.Getenv("SIM_STRICT") == "1"
	out := runOnce(t, p, tier, in.Seed, in.ScenTape, in.SchedTape, strict, os.Getenv("SIM_TRACE") == "1")
	enc.Encode(map[string]interface{}{"type": "replay", "run": out})
}

// workerHashes runs SIM_RUNS seeds and prints the full event-log hash of each (determinism self-test).
func workerHashes(t *testing.T, p *Property, tier string, enc *json.Encoder) {
	base := envU64("SIM_SEED", 1)
	runs := envInt("SIM_RUNS", 40)
	var hs []string
	for i := 0; i < runs; i++ {
		seed := splitmix(base*1000003 + uint64(i))
		dump := os.Getenv("SIM_DUMP") // diagnosis of a determinism failure: SIM_DUMP=<file prefix> writes the traces
		out := runOnce(t, p, tier, seed, nil, nil, false, dump != "")
		if dump != "" {
			os.WriteFile(fmt.Sprintf("%s.%d.%d", dump, os.Getpid(), i), []byte(strings.Join(out.Trace, "\n")), 0o644)
		}
		if out.Tool != "" {
			hs = append(hs, "TOOL:"+out.Tool)
			continue
		}
		v := ""
		for _, x := range out.Violations {
			v += "|" + classOf(x)
		}
		hs = append(hs, fmt.Sprintf("%d:%s:%s:%d:%d:%s%s", seed, out.Hash, out.Sig, out.Steps, out.Yields, out.Reason, v))
	}
	enc.Encode(map[string]interface{}{"type": "hashes", "hashes": hs})
}

// workerShrink minimises the tapes of a violating run while the same violation class persists.
func workerShrink(t *testing.T, p *Property, tier string, enc *json.Encoder) {
	in := readReplayIn()
	if in.Tier != "" {
		tier = in.Tier
	}
	class := in.Clause + "|" + in.Fingerpr
	maxRuns := envInt("SIM_SHRINK_RUNS", 4000)
	wall := time.Duration(envInt("SIM_WALL_S", 40)) * time.Second
	start := time.Now()
	runs := 0
	scen, sched := in.ScenTape, in.SchedTape
	test := func(sc, sd []simrt.Entry) bool {
		if runs >= maxRuns || time.Since(start) > wall {
			return false
		}
		runs++
		out := runOnce(t, p, tier, in.Seed, sc, sd, false, false)
		return out.Tool == "" && hasClass(out.Violations, class)
	}
	if !test(scen, sched) {
		enc.Encode(map[string]interface{}{"type": "shrink", "ok": false, "runs": runs})
		return
	}
	for pass := 0; pass < 4; pass++ {
		before := len(scen) + len(sched) + sumV(scen) + sumV(sched)
		sched = shrinkTape(sched, func(x []simrt.Entry) bool { return test(scen, x) })
		scen = shrinkTape(scen, func(x []simrt.Entry) bool { return test(x, sched) })
		after := len(scen) + len(sched) + sumV(scen) + sumV(sched)
		if after >= before || runs >= maxRuns || time.Since(start) > wall {
			break
		}
	}
	// normalise: re-run once and keep what was actually consumed
	out := runOnce(t, p, tier, in.Seed, scen, sched, false, false)
	if out.Tool == "" && hasClass(out.Violations, class) {
		scen, sched = out.ScenTape, out.SchedTape
	}
	enc.Encode(map[string]interface{}{"type": "shrink", "ok": true, "runs": runs, "scenario_tape": scen, "schedule_tape": sched})
}

func sumV(t []simrt.Entry) int {
	s := 0
	for _, e := range t {
		s += e.V
	}
	return s
}

func cloneTape(t []simrt.Entry) []simrt.Entry { return append([]simrt.Entry{}, t...) }

// shrinkTape: truncate, delete chunks, zero chunks, lower single values.
func shrinkTape(tape []simrt.Entry, ok func([]simrt.Entry) bool) []simrt.Entry {
	cur := cloneTape(tape)
	// truncate (binary search for a short prefix; exhausted tapes yield 0)
	lo, hi := 0, len(cur)
	for lo < hi {
		mid := (lo + hi) / 2
		if ok(cur[:mid]) {
			hi = mid
		} else {
			lo = mid + 1
		}
	}
	if hi < len(cur) && ok(cur[:hi]) {
		cur = cloneTape(cur[:hi])
	}
	// delete chunks
	for size := len(cur) / 2; size >= 1; size /= 2 {
		for i := 0; i+size <= len(cur); {
			cand := append(cloneTape(cur[:i]), cur[i+size:]...)
			if ok(cand) {
				cur = cand
			} else {
				i += size
			}
		}
	}
	// zero chunks
	for size := len(cur) / 2; size >= 1; size /= 2 {
		for i := 0; i+size <= len(cur); i += size {
			allZero := true
			for _, e := range cur[i : i+size] {
				if e.V != 0 {
					allZero = false
				}
			}
			if allZero {
				continue
			}
			cand := cloneTape(cur)
			for k := i; k < i+size; k++ {
				cand[k].V = 0
			}
			if ok(cand) {
				cur = cand
			}
		}
	}
	// lower single values
	for i := range cur {
		for cur[i].V > 0 {
			cand := cloneTape(cur)
			cand[i].V = cur[i].V / 2
			if ok(cand) {
				cur = cand
				continue
			}
			cand = cloneTape(cur)
			cand[i].V = cur[i].V - 1
			if cand[i].V != cur[i].V/2 && ok(cand) {
				cur = cand
				continue
			}
			break
		}
	}
	return cur
}
