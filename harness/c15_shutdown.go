package harness

import (
	"fmt"
	"time"

	fpgo "github.com/TeaEntityLab/fpGo/v2"
	"github.com/TeaEntityLab/fpGo/v2/worker"
	"verif.local/simrt"
)

// C15 — shutdown is safe at any moment.
//
// One object kind per run; one closer thread, 1..N user threads looping over the
// object's operations. Oracle: no panic (goroutine or call), no call left blocked at
// fair quiescence after the close, calls begun after the close returned report it.

func init() {
	register(&Property{
		ID:    "C15",
		Files: []string{"handler.go", "actor.go", "queue.go", "cor.go", "worker/pool.go"},
		Funcs: []string{"HandlerDef", "ActorDef", "BufferedChannelQueue", "CorDef", "DefaultWorkerPool"},
		Gen:   genC15,
		Rule: "one object kind per run (queue/handler/actor/pool/cor) drawn from the scenario tape with 1..N user threads and one closer; " +
			"a run is non-trivial when the close was invoked while at least one user call was in flight or still to come and >=1 context switch happened inside the object's code; " +
			"distinct = distinct (kind, context-switch signature)" +
			" Flavours: Close issued from inside a posted function / by a quit message (handler, actor) / by a job or by the panic handler of a panicking job (pool), finishing coroutine as target or as requester, crowd of requesters, pool with the job queue left open.",
		Real: []string{"fpgo.BufferedChannelQueue (loader, free-node goroutines)", "fpgo.Handler", "fpgo.Actor", "worker.DefaultWorkerPool", "fpgo.Cor", "Go channels/mutexes/timers on the fake clock"},
		Stub: []string{"goroutine scheduler", "clock", "sync.Pool"},
	})
}

type c15UserOp struct {
	Kind string        `json:"op"`
	D    time.Duration `json:"d,omitempty"`
}

type c15Scenario struct {
	CorRequester bool          `json:"cor_finishing_is_the_requester,omitempty"`
	Kind         string        `json:"kind"`
	Cap          int           `json:"cap"`
	BufMax       int           `json:"buf_max"`
	HookSize     int           `json:"hook_size"`
	LoadDur      time.Duration `json:"load_dur"`
	FreeDur      time.Duration `json:"free_dur"`
	Users        [][]c15UserOp `json:"users"`
	PoolMax      int           `json:"pool_max,omitempty"`
	PoolStandBy  int           `json:"pool_standby,omitempty"`
	CloseQueue   bool          `json:"close_queue_with_pool,omitempty"`
	CloseDelay   int           `json:"close_delay_yields"`
	CloseSleep   time.Duration `json:"close_sleep"`
	CloseInside  bool          `json:"close_called_from_inside_a_callback,omitempty"` // handler/actor: the "quit message" idiom; pool: a job
	ClosePanics  bool          `json:"close_called_by_the_panic_handler,omitempty"`   // pool: the quit job panics, the panic handler closes the pool

	h         *Hist
	hung      bool
	closeOp   *Op
	probes    map[string]int
	extra     []Violation
	closeSeen bool
}

func genC15(t *simrt.Tape, tier string) Scenario {
	sc := &c15Scenario{probes: map[string]int{}}
	kinds := []string{"queue", "handler", "actor", "pool", "cor"}
	sc.Kind = kinds[t.Choose(len(kinds))]
	maxUsers, maxOps := 3, 4
	if tier == "thorough" {
		maxUsers, maxOps = 8, 5
	}
	switch sc.Kind {
	case "queue":
		sc.Cap = []int{1, 0, 2, 3}[t.Choose(4)]
		sc.BufMax = []int{2, 0, 1, 5, 50}[t.Choose(5)]
		sc.HookSize = t.Choose(3)
		sc.LoadDur = drawDur(t)
		sc.FreeDur = drawDur(t)
		nu := 1 + t.Choose(maxUsers)
		opsK := []string{"Poll", "Take", "TakeWithTimeout", "Offer", "Put", "GetChannelRecv", "Count"}
		for u := 0; u < nu; u++ {
			n := 1 + t.Choose(maxOps)
			var ops []c15UserOp
			for i := 0; i < n; i++ {
				op := c15UserOp{Kind: opsK[t.Choose(len(opsK))]}
				if op.Kind == "TakeWithTimeout" || op.Kind == "GetChannelRecv" {
					op.D = drawDur(t)
				}
				ops = append(ops, op)
			}
			sc.Users = append(sc.Users, ops)
		}
	case "handler", "actor":
		sc.Cap = []int{0, 1, 3}[t.Choose(3)]
		sc.CloseInside = t.Bool(1, 3)
		nu := 1 + t.Choose(maxUsers)
		for u := 0; u < nu; u++ {
			n := 1 + t.Choose(maxOps)
			var ops []c15UserOp
			for i := 0; i < n; i++ {
				ops = append(ops, c15UserOp{Kind: "Post"})
			}
			sc.Users = append(sc.Users, ops)
		}
	case "pool":
		sc.Cap = []int{1, 2, 3}[t.Choose(3)]
		sc.BufMax = []int{2, 0, 5}[t.Choose(3)]
		sc.LoadDur = []time.Duration{time.Millisecond, 100 * time.Microsecond, 5 * time.Millisecond}[t.Choose(3)]
		sc.PoolMax = 1 + t.Choose(3)
		sc.PoolStandBy = 1 + t.Choose(sc.PoolMax)
		sc.CloseQueue = !t.Bool(1, 3)
		// the pool is closed from inside: by one of its own jobs, or by its panic handler when a job panics (fail-fast policy)
		sc.CloseInside = t.Bool(1, 3)
		sc.ClosePanics = sc.CloseInside && t.Bool(1, 2)
		nu := 1 + t.Choose(maxUsers)
		for u := 0; u < nu; u++ {
			n := 1 + t.Choose(maxOps)
			var ops []c15UserOp
			for i := 0; i < n; i++ {
				op := c15UserOp{Kind: []string{"Schedule", "ScheduleWithTimeout"}[t.Choose(2)]}
				if op.Kind == "ScheduleWithTimeout" {
					op.D = []time.Duration{time.Millisecond, 5 * time.Millisecond, 20 * time.Millisecond}[t.Choose(3)]
				}
				ops = append(ops, op)
			}
			sc.Users = append(sc.Users, ops)
		}
	case "cor":
		// the target serves Cap requests (never more than the callers issue), then its effect
		// returns (completion = close)
		nu := 1 + t.Choose(maxUsers)
		crowd := t.Bool(1, 3)
		if crowd {
			// more callers than the target's request channel buffers (5): some are blocked in the
			// hand-over itself when the target completes
			nu = 6 + t.Choose(4)
		}
		total := 0
		for u := 0; u < nu; u++ {
			n := 1 + t.Choose(maxOps)
			if crowd {
				n = 1 + t.Choose(2)
			}
			total += n
			var ops []c15UserOp
			for i := 0; i < n; i++ {
				ops = append(ops, c15UserOp{Kind: "YieldFrom"})
			}
			sc.Users = append(sc.Users, ops)
		}
		sc.Cap = t.Choose(total + 1)
		if crowd {
			sc.Cap = t.Choose(4)
		}
		// the finishing coroutine is the one the user goroutines call YieldFrom ON (as requester,
		// towards a live server coroutine), not the target of their requests
		sc.CorRequester = !crowd && t.Bool(1, 3)
		sc.HookSize = t.Choose(2) // (cor kind: 1 = the target is started with StartWithVal)
	}
	sc.CloseDelay = t.Choose(12)
	if t.Bool(1, 4) {
		sc.CloseSleep = drawDur(t)
	}
	return sc
}

func (sc *c15Scenario) Describe() interface{} { return sc }

func (sc *c15Scenario) Config() simrt.Config {
	return simrt.Config{Horizon: 30 * time.Minute, MaxSteps: 100000}
}

func (sc *c15Scenario) Probes() map[string]int { return sc.probes }

func (sc *c15Scenario) Nontrivial(res *simrt.Result) bool {
	return sc.probes["close-overlapped-user-call"] > 0 && res.Switches > 0
}

func (sc *c15Scenario) Run(s *simrt.Sim) {
	sc.h = &Hist{S: s}
	// the library's default instances (default Handler/Actor and whatever else the package creates when it is loaded) are
	// re-created inside every simulation: code that falls back on them runs on simulated threads (see C12, C16)
	fpgo.SimReinit()
	switch sc.Kind {
	case "queue":
		sc.runQueue(s)
	case "handler":
		sc.runHandler(s)
	case "actor":
		sc.runActor(s)
	case "pool":
		sc.runPool(s)
	case "cor":
		sc.runCor(s)
	}
}

// runClosing starts the closer thread and waits (then fairly) for users + closer.
func (sc *c15Scenario) runClosing(s *simrt.Sim, ths []*simrt.Thread, closeFn func()) bool {
	h := sc.h
	closer := s.Go("closer", func() {
		for i := 0; i < sc.CloseDelay; i++ {
			s.YieldHard()
		}
		if sc.CloseSleep > 0 {
			s.Sleep(sc.CloseSleep)
		}
		if sc.CloseInside && (sc.Kind == "handler" || sc.Kind == "actor" || sc.Kind == "pool") {
			// closeFn submits the quit message; the Close itself is recorded where it happens
			h.Do("closer", "submit-quit-message", nil, func() (interface{}, error) { closeFn(); return nil, nil })
			return
		}
		s.Fault("close-while-users-active:" + sc.Kind)
		sc.closeOp = h.Do("closer", "Close", nil, func() (interface{}, error) { closeFn(); return nil, nil })
	})
	ths = append(ths, closer)
	done := allDone(ths)
	if sc.CloseInside && (sc.Kind == "handler" || sc.Kind == "actor" || sc.Kind == "pool") {
		all := done
		done = func() bool { return all() && sc.closeOp != nil && sc.closeOp.Returned }
	}
	if !s.WaitUntilTimeout(done, 20*time.Second) {
		s.SetFair(true)
		if !s.WaitUntilTimeout(done, 5*time.Minute) {
			sc.hung = true
			return false
		}
	}
	s.SetFair(true)
	return true
}

type c15Work struct {
	id     int
	sub    *Op
	ranAt  []uint64
	thread int
}

// checkLateWork: nothing submitted after the close returned may run.
func (sc *c15Scenario) checkLateWork(works []*c15Work, what string) {
	if sc.closeOp == nil || !sc.closeOp.Returned {
		return
	}
	for _, w := range works {
		if w.sub != nil && w.sub.Inv > sc.closeOp.Ret && len(w.ranAt) > 0 {
			sc.extra = append(sc.extra, Violation{Clause: "ran-after-close", Fingerprint: sc.Kind + "." + what,
				Detail: fmt.Sprintf("%s was submitted after Close returned but its callback ran", w.sub.String())})
		}
		if len(w.ranAt) > 1 {
			sc.extra = append(sc.extra, Violation{Clause: "ran-twice", Fingerprint: sc.Kind + "." + what, Detail: fmt.Sprintf("%s ran %d times", w.sub.String(), len(w.ranAt))})
		}
	}
}

func (sc *c15Scenario) runHandler(s *simrt.Sim) {
	h := sc.h
	var hd *fpgo.HandlerDef
	if sc.Cap == 0 {
		hd = fpgo.Handler.New()
	} else {
		hd = fpgo.Handler.NewByCh(make(chan func(), sc.Cap))
	}
	var works []*c15Work
	post := func(name string) {
		w := &c15Work{id: len(works)}
		works = append(works, w)
		w.sub = h.Do(name, "Post", w.id, func() (interface{}, error) {
			hd.Post(func() { w.ranAt = append(w.ranAt, s.Stamp()); s.Yield() })
			return nil, nil
		})
	}
	var ths []*simrt.Thread
	for u, ops := range sc.Users {
		ops := ops
		name := fmt.Sprintf("user%d", u)
		ths = append(ths, s.Go(name, func() {
			for range ops {
				post(name)
				s.Yield()
			}
		}))
	}
	closeFn := func() { hd.Close() }
	if sc.CloseInside {
		closeFn = func() {
			hd.Post(func() {
				sc.closeOp = h.Do("handler-goroutine", "Close", nil, func() (interface{}, error) { hd.Close(); return nil, nil })
			})
		}
		sc.probes["close-from-inside-a-callback"]++
	}
	if !sc.runClosing(s, ths, closeFn) {
		return
	}
	post("main")
	// the same holds for work that reaches the closed Handler through a MonadIO: a subscription made now, with
	// SubscribeOn(the closed handler), delivers nothing (the delivery is work submitted after the close returned)
	lateEff, lateNext := 0, 0
	lm := fpgo.MonadIONewGenerics(func() int { lateEff++; return 1 }).SubscribeOn(hd)
	h.Do("main", "Subscribe(SubscribeOn = the closed handler)", nil, func() (interface{}, error) {
		lm.Subscribe(fpgo.Subscription[int]{OnNext: func(int) { lateNext++ }})
		return nil, nil
	})
	s.Sleep(time.Second)
	if lateNext != 0 || lateEff != 1 {
		sc.extra = append(sc.extra, Violation{Clause: "ran-after-close", Fingerprint: "handler:delivery-of-a-MonadIO-through-the-closed-handler", Detail: fmt.Sprintf("after Close returned, Subscribe on a MonadIO with SubscribeOn(closed handler): effect ran %d times (want 1, in line), OnNext ran %d times (want 0: posted to the closed handler, dropped)", lateEff, lateNext)})
	}
	sc.checkLateWork(works, "Post")
}

func (sc *c15Scenario) runActor(s *simrt.Sim) {
	h := sc.h
	var works []*c15Work
	effect := func(self *fpgo.ActorDef[int], msg int) {
		if msg >= 0 && msg < len(works) {
			works[msg].ranAt = append(works[msg].ranAt, s.Stamp())
		}
		if msg == -77 {
			// the quit message: the actor closes itself
			sc.closeOp = h.Do("actor-goroutine", "Close", nil, func() (interface{}, error) { self.Close(); return nil, nil })
		}
		s.Yield()
	}
	var a *fpgo.ActorDef[int]
	if sc.Cap == 0 {
		a = fpgo.ActorNewGenerics(effect)
	} else {
		a = fpgo.ActorNewByOptionsGenerics(effect, make(chan int, sc.Cap), map[string]interface{}{})
	}
	send := func(name string) {
		w := &c15Work{id: len(works)}
		works = append(works, w)
		w.sub = h.Do(name, "Send", w.id, func() (interface{}, error) { a.Send(w.id); return nil, nil })
	}
	var ths []*simrt.Thread
	for u, ops := range sc.Users {
		ops := ops
		name := fmt.Sprintf("user%d", u)
		ths = append(ths, s.Go(name, func() {
			for range ops {
				send(name)
				s.Yield()
			}
		}))
	}
	closeFn := func() { a.Close() }
	if sc.CloseInside {
		closeFn = func() { a.Send(-77) }
		sc.probes["close-from-inside-a-callback"]++
	}
	if !sc.runClosing(s, ths, closeFn) {
		return
	}
	send("main")
	op := h.Do("main", "IsClosed", nil, func() (interface{}, error) { return a.IsClosed(), nil })
	if op.Panic == "" && op.Val != true {
		sc.extra = append(sc.extra, Violation{Clause: "post-close-result", Fingerprint: "actor.IsClosed", Detail: "IsClosed() false after Close returned"})
	}
	s.Sleep(time.Second)
	sc.checkLateWork(works, "Send")
}

func (sc *c15Scenario) runPool(s *simrt.Sim) {
	h := sc.h
	q := fpgo.NewBufferedChannelQueue[func()](sc.Cap, sc.BufMax, 1)
	q.SetLoadFromPoolDuration(sc.LoadDur)
	var pool *worker.DefaultWorkerPool
	s.NoPreempt(func() { // configuration applied as one step (see harness/c09_pool.go)
		pool = worker.NewDefaultWorkerPool(q, nil)
		pool.SetPanicHandler(func(v interface{}) {
			if v == "c15-quit" && sc.ClosePanics && sc.closeOp == nil {
				sc.closeOp = h.Do("panic-handler", "Close", nil, func() (interface{}, error) { pool.Close(); return nil, nil })
				return
			}
			sc.extra = append(sc.extra, Violation{Clause: "panic-handler", Fingerprint: "pool:foreign-panic:" + normPanic(v),
				Detail: fmt.Sprintf("the pool's panic handler was invoked with %q although no job panics in this scenario", fmt.Sprint(v))})
		})
		pool.SetWorkerSizeMaximum(sc.PoolMax).SetWorkerSizeStandBy(sc.PoolStandBy).SetWorkerBatchSize(1).
			SetSpawnWorkerDuration(time.Millisecond).SetWorkerExpiryDuration(20 * time.Millisecond).SetScheduleRetryInterval(time.Millisecond).
			SetIsJobQueueClosedWhenClose(sc.CloseQueue)
	})
	var works []*c15Work
	sched := func(name string, op c15UserOp) {
		w := &c15Work{id: len(works)}
		works = append(works, w)
		job := func() { w.ranAt = append(w.ranAt, s.Stamp()); s.Yield() }
		if op.Kind == "ScheduleWithTimeout" {
			w.sub = h.Do(name, "ScheduleWithTimeout", w.id, func() (interface{}, error) { return nil, pool.ScheduleWithTimeout(job, op.D) })
		} else {
			w.sub = h.Do(name, "Schedule", w.id, func() (interface{}, error) { return nil, pool.Schedule(job) })
		}
	}
	var ths []*simrt.Thread
	for u, ops := range sc.Users {
		ops := ops
		name := fmt.Sprintf("user%d", u)
		ths = append(ths, s.Go(name, func() {
			for _, op := range ops {
				sched(name, op)
				s.Yield()
			}
		}))
	}
	closeFn := func() { pool.Close() }
	if sc.CloseInside {
		closeFn = func() {
			err := pool.Schedule(func() {
				if sc.ClosePanics {
					panic("c15-quit")
				}
				sc.closeOp = h.Do("pool-worker", "Close", nil, func() (interface{}, error) { pool.Close(); return nil, nil })
			})
			if err != nil {
				sc.closeOp = h.Do("closer", "Close", nil, func() (interface{}, error) { pool.Close(); return nil, nil })
			}
		}
		sc.probes["pool-closed-from-inside"]++
	}
	if !sc.runClosing(s, ths, closeFn) {
		return
	}
	sched("main", c15UserOp{Kind: "Schedule"})
	if op := works[len(works)-1].sub; op.Panic == "" && op.Err != worker.ErrWorkerPoolIsClosed {
		sc.extra = append(sc.extra, Violation{Clause: "post-close-result", Fingerprint: "pool.Schedule", Detail: "after Close returned: " + op.String() + ": want ErrWorkerPoolIsClosed"})
	}
	sched("main", c15UserOp{Kind: "ScheduleWithTimeout", D: time.Millisecond})
	if op := works[len(works)-1].sub; op.Panic == "" && op.Err != worker.ErrWorkerPoolIsClosed {
		sc.extra = append(sc.extra, Violation{Clause: "post-close-result", Fingerprint: "pool.ScheduleWithTimeout", Detail: "after Close returned: " + op.String() + ": want ErrWorkerPoolIsClosed"})
	}
	op := h.Do("main", "IsClosed", nil, func() (interface{}, error) { return pool.IsClosed(), nil })
	if op.Panic == "" && op.Val != true {
		sc.extra = append(sc.extra, Violation{Clause: "post-close-result", Fingerprint: "pool.IsClosed", Detail: "IsClosed() false after Close returned"})
	}
	if !sc.CloseQueue {
		// the job queue was left open: its owner hands it to a second pool right away, while workers of the closed pool
		// may still be parked on its channel - whoever takes a job the second pool accepted runs it, exactly once
		var pool2 *worker.DefaultWorkerPool
		s.NoPreempt(func() {
			pool2 = worker.NewDefaultWorkerPool(q, nil)
			pool2.SetWorkerSizeMaximum(2).SetWorkerSizeStandBy(1).SetWorkerBatchSize(1).
				SetSpawnWorkerDuration(time.Millisecond).SetWorkerExpiryDuration(20 * time.Millisecond).SetScheduleRetryInterval(time.Millisecond)
		})
		ran := make([]int, 3)
		acc := make([]bool, 3)
		for i := range ran {
			i := i
			op := h.Do("main", "second-pool.ScheduleWithTimeout", i, func() (interface{}, error) {
				return nil, pool2.ScheduleWithTimeout(func() { ran[i]++ }, time.Second)
			})
			acc[i] = op.Panic == "" && op.Err == nil
		}
		s.Sleep(2 * time.Second)
		for i := range ran {
			if acc[i] && ran[i] != 1 {
				sc.extra = append(sc.extra, Violation{Clause: "queue-reuse", Fingerprint: "pool:job-of-a-second-pool-on-the-same-queue-ran-" + fmt.Sprint(min3(ran[i])) + "-times", Detail: fmt.Sprintf("the first pool was closed with its job queue left open; a second pool on the same queue accepted job %d, which ran %d times (want once); first pool max=%d standby=%d", i, ran[i], sc.PoolMax, sc.PoolStandBy)})
			}
		}
		h.Do("main", "second-pool.Close", nil, func() (interface{}, error) { pool2.SetIsJobQueueClosedWhenClose(false).Close(); return nil, nil })
		sc.probes["job-queue-reused-by-a-second-pool"]++
	}
	// let the workers notice the close (they re-check the flag when their idle timer fires)
	s.Sleep(200 * time.Millisecond)
	sc.checkLateWork(works, "Schedule")
	for _, w := range works {
		if w.sub != nil && w.sub.Returned && w.sub.Err != nil && len(w.ranAt) > 0 {
			sc.extra = append(sc.extra, Violation{Clause: "rejected-ran", Fingerprint: "pool." + w.sub.Name, Detail: w.sub.String() + " was rejected but its job ran"})
		}
	}
}

func (sc *c15Scenario) runCorRequester(s *simrt.Sim) {
	h := sc.h
	var server, fin *fpgo.CorDef[int]
	server = fpgo.CorNewGenerics[int](func() {
		for i := 0; ; i++ {
			server.YieldRef(2000 + i)
			s.Yield()
		}
	})
	finished := false
	fin = fpgo.CorNewGenerics[int](func() {
		for i := 0; i < sc.CloseDelay; i++ {
			s.YieldHard()
		}
		finished = true
		// returning completes the coroutine: this is the "close" of this kind
	})
	var ths []*simrt.Thread
	for u, ops := range sc.Users {
		u, ops := u, ops
		name := fmt.Sprintf("user%d", u)
		ths = append(ths, s.Go(name, func() {
			for i := range ops {
				x := u*100 + i
				h.Do(name, "YieldFrom", x, func() (interface{}, error) { return fin.YieldFrom(server, x), nil })
				s.Yield()
			}
		}))
	}
	ths = append(ths, s.Go("server-starter", func() { server.Start() }))
	ths = append(ths, s.Go("fin-starter", func() { fin.Start() }))
	done := func() bool { return allDone(ths)() && finished && fin.IsDone() }
	if !s.WaitUntilTimeout(done, 20*time.Second) {
		s.SetFair(true)
		if !s.WaitUntilTimeout(done, 5*time.Minute) {
			sc.hung = true
			return
		}
	}
	s.SetFair(true)
	sc.probes["close-overlapped-user-call"]++
	sc.probes["cor-requester-finishes"]++
	s.Sleep(time.Second)
}

func (sc *c15Scenario) runCor(s *simrt.Sim) {
	h := sc.h
	if sc.CorRequester {
		sc.runCorRequester(s)
		return
	}
	var target *fpgo.CorDef[int]
	served := 0
	target = fpgo.CorNewGenerics[int](func() {
		for i := 0; i < sc.Cap; i++ {
			target.YieldRef(1000 + i)
			served++
			s.Yield()
		}
		for i := 0; i < sc.CloseDelay; i++ {
			s.YieldHard()
		}
		// returning completes the coroutine: this is the "close" of this kind
	})
	if sc.HookSize%2 == 1 {
		// The target is started with a value, before any caller exists (StartWithVal queues its value like a
		// request and only then starts the coroutine: with five requests already queued by early callers it would
		// wait for room that only the not-yet-started coroutine can make - a start-up matter outside this property).
		// When the target serves nothing, that value is still pending at completion.
		target.StartWithVal(424242)
		sc.probes["cor-target-started-with-a-value"]++
	}
	var ths []*simrt.Thread
	callersDone := 0
	for u, ops := range sc.Users {
		ops := ops
		name := fmt.Sprintf("caller%d", u)
		var caller *fpgo.CorDef[int]
		caller = fpgo.CorNewGenerics[int](func() {
			for i := range ops {
				x := u*100 + i
				h.Do(name, "YieldFrom", x, func() (interface{}, error) { return caller.YieldFrom(target, x), nil })
				s.Yield()
			}
			callersDone++
		})
		ths = append(ths, s.Go(name+"-starter", func() { caller.Start() }))
	}
	ths = append(ths, s.Go("target-starter", func() { target.Start() }))
	n := len(sc.Users)
	done := func() bool { return callersDone == n && target.IsDone() }
	if !s.WaitUntilTimeout(done, 20*time.Second) {
		s.SetFair(true)
		if !s.WaitUntilTimeout(done, 5*time.Minute) {
			sc.hung = true
			return
		}
	}
	s.SetFair(true)
	sc.probes["close-overlapped-user-call"]++ // completion of the target is always concurrent with the callers here
	op := h.Do("main", "IsDone", nil, func() (interface{}, error) { return target.IsDone(), nil })
	if op.Panic == "" && op.Val != true {
		sc.extra = append(sc.extra, Violation{Clause: "post-close-result", Fingerprint: "cor.IsDone", Detail: "IsDone() false after the effect returned"})
	}
}

func (sc *c15Scenario) runQueue(s *simrt.Sim) {
	h := sc.h
	q := fpgo.NewBufferedChannelQueue[int](sc.Cap, sc.BufMax, sc.HookSize)
	q.SetLoadFromPoolDuration(sc.LoadDur).SetFreeNodeHookPoolIntervalDuration(sc.FreeDur)
	var ths []*simrt.Thread
	val := 0
	for u, ops := range sc.Users {
		u, ops := u, ops
		name := fmt.Sprintf("user%d", u)
		ths = append(ths, s.Go(name, func() {
			for _, op := range ops {
				op := op
				switch op.Kind {
				case "Offer":
					val++
					v := val
					h.Do(name, "Offer", v, func() (interface{}, error) { return nil, q.Offer(v) })
				case "Put":
					val++
					v := val
					h.Do(name, "Put", v, func() (interface{}, error) { return nil, q.Put(v) })
				case "Poll":
					h.Do(name, "Poll", nil, func() (interface{}, error) { return q.Poll() })
				case "Take":
					h.Do(name, "Take", nil, func() (interface{}, error) { return q.Take() })
				case "TakeWithTimeout":
					h.Do(name, "TakeWithTimeout", op.D, func() (interface{}, error) { return q.TakeWithTimeout(op.D) })
				case "Count":
					h.Do(name, "Count", nil, func() (interface{}, error) { return q.Count(), nil })
				case "GetChannelRecv":
					h.Do(name, "GetChannelRecv", op.D, func() (interface{}, error) {
						ch := q.GetChannel()
						tk := simrt.B(-4)
						tm := time.NewTimer(op.D) // after the yield point of B: no virtual time may pass before the select
						defer tm.Stop()
						select {
						case v, ok := <-ch:
							simrt.U(tk)
							if !ok {
								return nil, fpgo.ErrQueueIsClosed
							}
							return v, nil
						case <-tm.C:
							simrt.U(tk)
							return nil, fpgo.ErrQueueTakeTimeout
						}
					})
				}
				s.Yield()
			}
		}))
	}
	closer := s.Go("closer", func() {
		for i := 0; i < sc.CloseDelay; i++ {
			s.YieldHard()
		}
		if sc.CloseSleep > 0 {
			s.Sleep(sc.CloseSleep)
		}
		sc.closeOp = h.Do("closer", "Close", nil, func() (interface{}, error) { q.Close(); return nil, nil })
	})
	ths = append(ths, closer)
	done := allDone(ths)
	if !s.WaitUntilTimeout(done, 20*time.Second) {
		s.SetFair(true)
		if !s.WaitUntilTimeout(done, 5*time.Minute) {
			sc.hung = true
			return
		}
	}
	s.SetFair(true)
	// calls begun after Close returned must report it
	post := func(name string, f func() (interface{}, error), check func(op *Op) string) {
		op := h.Do("main", name, nil, f)
		if op.Panic == "" {
			if msg := check(op); msg != "" {
				sc.extra = append(sc.extra, Violation{Clause: "post-close-result", Fingerprint: "queue." + name, Detail: "after Close returned: " + op.String() + ": " + msg})
			}
		}
	}
	wantClosed := func(op *Op) string {
		if op.Err != fpgo.ErrQueueIsClosed {
			return "want ErrQueueIsClosed"
		}
		return ""
	}
	post("Offer", func() (interface{}, error) { return nil, q.Offer(-1) }, wantClosed)
	post("Put", func() (interface{}, error) { return nil, q.Put(-2) }, wantClosed)
	post("Poll", func() (interface{}, error) { return q.Poll() }, wantClosed)
	post("Take", func() (interface{}, error) { return q.Take() }, wantClosed)
	post("TakeWithTimeout", func() (interface{}, error) { return q.TakeWithTimeout(time.Millisecond) }, wantClosed)
	post("IsClosed", func() (interface{}, error) { return q.IsClosed(), nil }, func(op *Op) string {
		if op.Val != true {
			return "want IsClosed()==true"
		}
		return ""
	})
	post("Count", func() (interface{}, error) { return q.Count(), nil }, func(op *Op) string { return "" })
}

func (sc *c15Scenario) Check(res *simrt.Result) []Violation {
	var vs []Violation
	vs = append(vs, goroutinePanics(res)...)
	if sc.h == nil {
		return vs
	}
	vs = append(vs, opPanics(sc.h)...)
	vs = append(vs, sc.extra...)
	// overlap probe
	if sc.closeOp != nil {
		for _, op := range sc.h.Ops {
			if op != sc.closeOp && op.Thread != "main" && (!op.Returned || op.Ret > sc.closeOp.Inv) {
				sc.probes["close-overlapped-user-call"]++
				break
			}
		}
	}
	// hang: a user call that never returned although the close completed and the system was
	// given a fair settle phase
	if sc.hung || res.Reason != "done" {
		for _, op := range sc.h.Ops {
			if !op.Returned {
				at := "?"
				for _, th := range res.Threads {
					if th.ID == op.TID {
						at = simrt.SiteName(th.BlockedAt)
					}
				}
				vs = append(vs, Violation{Clause: "hang", Fingerprint: sc.Kind + "." + op.Name + " blocked at " + simrt.SiteFunc(atID(res, op.TID)),
					Detail: fmt.Sprintf("%s never returned (reason=%s, blocked at %s)", op.String(), res.Reason, at)})
			}
		}
		if len(vs) == 0 {
			vs = append(vs, Violation{Clause: "hang", Fingerprint: sc.Kind + ".run-did-not-finish", Detail: "run ended with reason " + res.Reason})
		}
	}
	return dedupe(vs)
}

func atID(res *simrt.Result, tid int) int32 {
	for _, th := range res.Threads {
		if th.ID == tid {
			return th.BlockedAt
		}
	}
	return -1
}
