package harness

import (
	"fmt"
	"time"

	fpgo "github.com/TeaEntityLab/fpGo/v2"
	"verif.local/simrt"
)

// C15 — shutdown is safe at any moment.
//
// One object kind per run; one closer thread, 1..N user threads looping over the
// object's operations. Oracle: no panic (goroutine or call), no call left blocked at
// fair quiescence after the close, calls begun after the close returned report it.

func init() {
	register(&Property{
		ID:  "C15",
		Gen: genC15,
		Rule: "one object kind per run (queue/handler/actor/pool/cor) drawn from the scenario tape with 1..N user threads and one closer; " +
			"a run is non-trivial when the close was invoked while at least one user call was in flight or still to come and >=1 context switch happened inside the object's code; " +
			"distinct = distinct (kind, context-switch signature)",
		Real: []string{"fpgo.BufferedChannelQueue (loader, free-node goroutines)", "fpgo.Handler", "fpgo.Actor", "worker.DefaultWorkerPool", "fpgo.Cor", "Go channels/mutexes/timers on the fake clock"},
		Stub: []string{"goroutine scheduler", "clock", "sync.Pool"},
	})
}

type c15UserOp struct {
	Kind string        `json:"op"`
	D    time.Duration `json:"d,omitempty"`
}

type c15Scenario struct {
	Kind       string        `json:"kind"`
	Cap        int           `json:"cap"`
	BufMax     int           `json:"buf_max"`
	HookSize   int           `json:"hook_size"`
	LoadDur    time.Duration `json:"load_dur"`
	FreeDur    time.Duration `json:"free_dur"`
	Users      [][]c15UserOp `json:"users"`
	CloseDelay int           `json:"close_delay_yields"`
	CloseSleep time.Duration `json:"close_sleep"`

	h         *Hist
	hung      bool
	closeOp   *Op
	probes    map[string]int
	extra     []Violation
	closeSeen bool
}

func genC15(t *simrt.Tape, tier string) Scenario {
	sc := &c15Scenario{probes: map[string]int{}}
	kinds := []string{"queue"}
	sc.Kind = kinds[t.Choose(len(kinds))]
	maxUsers, maxOps := 3, 4
	if tier == "thorough" {
		maxUsers, maxOps = 8, 5
	}
	switch sc.Kind {
	case "queue":
		sc.Cap = []int{1, 0, 2, 3}[t.Choose(4)]
		sc.BufMax = []int{2, 0, 1, 5, 50}[t.Choose(5)]
		sc.HookSize = t.Choose(3)
		sc.LoadDur = drawDur(t)
		sc.FreeDur = drawDur(t)
		nu := 1 + t.Choose(maxUsers)
		opsK := []string{"Poll", "Take", "TakeWithTimeout", "Offer", "Put", "GetChannelRecv", "Count"}
		for u := 0; u < nu; u++ {
			n := 1 + t.Choose(maxOps)
			var ops []c15UserOp
			for i := 0; i < n; i++ {
				op := c15UserOp{Kind: opsK[t.Choose(len(opsK))]}
				if op.Kind == "TakeWithTimeout" || op.Kind == "GetChannelRecv" {
					op.D = drawDur(t)
				}
				ops = append(ops, op)
			}
			sc.Users = append(sc.Users, ops)
		}
	}
	sc.CloseDelay = t.Choose(12)
	if t.Bool(1, 4) {
		sc.CloseSleep = drawDur(t)
	}
	return sc
}

func (sc *c15Scenario) Describe() interface{} { return sc }

func (sc *c15Scenario) Config() simrt.Config {
	return simrt.Config{Horizon: 30 * time.Minute, MaxSteps: 100000}
}

func (sc *c15Scenario) Probes() map[string]int { return sc.probes }

func (sc *c15Scenario) Nontrivial(res *simrt.Result) bool {
	return sc.probes["close-overlapped-user-call"] > 0 && res.Switches > 0
}

func (sc *c15Scenario) Run(s *simrt.Sim) {
	sc.h = &Hist{S: s}
	switch sc.Kind {
	case "queue":
		sc.runQueue(s)
	}
}

func (sc *c15Scenario) runQueue(s *simrt.Sim) {
	h := sc.h
	q := fpgo.NewBufferedChannelQueue[int](sc.Cap, sc.BufMax, sc.HookSize)
	q.SetLoadFromPoolDuration(sc.LoadDur).SetFreeNodeHookPoolIntervalDuration(sc.FreeDur)
	var ths []*simrt.Thread
	val := 0
	for u, ops := range sc.Users {
		u, ops := u, ops
		name := fmt.Sprintf("user%d", u)
		ths = append(ths, s.Go(name, func() {
			for _, op := range ops {
				op := op
				switch op.Kind {
				case "Offer":
					val++
					v := val
					h.Do(name, "Offer", v, func() (interface{}, error) { return nil, q.Offer(v) })
				case "Put":
					val++
					v := val
					h.Do(name, "Put", v, func() (interface{}, error) { return nil, q.Put(v) })
				case "Poll":
					h.Do(name, "Poll", nil, func() (interface{}, error) { return q.Poll() })
				case "Take":
					h.Do(name, "Take", nil, func() (interface{}, error) { return q.Take() })
				case "TakeWithTimeout":
					h.Do(name, "TakeWithTimeout", op.D, func() (interface{}, error) { return q.TakeWithTimeout(op.D) })
				case "Count":
					h.Do(name, "Count", nil, func() (interface{}, error) { return q.Count(), nil })
				case "GetChannelRecv":
					h.Do(name, "GetChannelRecv", op.D, func() (interface{}, error) {
						ch := q.GetChannel()
						tm := time.NewTimer(op.D)
						defer tm.Stop()
						tk := simrt.B(-4)
						select {
						case v, ok := <-ch:
							simrt.U(tk)
							if !ok {
								return nil, fpgo.ErrQueueIsClosed
							}
							return v, nil
						case <-tm.C:
							simrt.U(tk)
							return nil, fpgo.ErrQueueTakeTimeout
						}
					})
				}
				s.Yield()
			}
		}))
	}
	closer := s.Go("closer", func() {
		for i := 0; i < sc.CloseDelay; i++ {
			s.YieldHard()
		}
		if sc.CloseSleep > 0 {
			s.Sleep(sc.CloseSleep)
		}
		sc.closeOp = h.Do("closer", "Close", nil, func() (interface{}, error) { q.Close(); return nil, nil })
	})
	ths = append(ths, closer)
	done := allDone(ths)
	if !s.WaitUntilTimeout(done, 20*time.Second) {
		s.SetFair(true)
		if !s.WaitUntilTimeout(done, 5*time.Minute) {
			sc.hung = true
			return
		}
	}
	s.SetFair(true)
	// calls begun after Close returned must report it
	post := func(name string, f func() (interface{}, error), check func(op *Op) string) {
		op := h.Do("main", name, nil, f)
		if op.Panic == "" {
			if msg := check(op); msg != "" {
				sc.extra = append(sc.extra, Violation{Clause: "post-close-result", Fingerprint: "queue." + name, Detail: "after Close returned: " + op.String() + ": " + msg})
			}
		}
	}
	wantClosed := func(op *Op) string {
		if op.Err != fpgo.ErrQueueIsClosed {
			return "want ErrQueueIsClosed"
		}
		return ""
	}
	post("Offer", func() (interface{}, error) { return nil, q.Offer(-1) }, wantClosed)
	post("Put", func() (interface{}, error) { return nil, q.Put(-2) }, wantClosed)
	post("Poll", func() (interface{}, error) { return q.Poll() }, wantClosed)
	post("Take", func() (interface{}, error) { return q.Take() }, wantClosed)
	post("TakeWithTimeout", func() (interface{}, error) { return q.TakeWithTimeout(time.Millisecond) }, wantClosed)
	post("IsClosed", func() (interface{}, error) { return q.IsClosed(), nil }, func(op *Op) string {
		if op.Val != true {
			return "want IsClosed()==true"
		}
		return ""
	})
	post("Count", func() (interface{}, error) { return q.Count(), nil }, func(op *Op) string { return "" })
}

func (sc *c15Scenario) Check(res *simrt.Result) []Violation {
	var vs []Violation
	vs = append(vs, goroutinePanics(res)...)
	if sc.h == nil {
		return vs
	}
	vs = append(vs, opPanics(sc.h)...)
	vs = append(vs, sc.extra...)
	// overlap probe
	if sc.closeOp != nil {
		for _, op := range sc.h.Ops {
			if op != sc.closeOp && op.Thread != "main" && (!op.Returned || op.Ret > sc.closeOp.Inv) {
				sc.probes["close-overlapped-user-call"]++
				break
			}
		}
	}
	// hang: a user call that never returned although the close completed and the system was
	// given a fair settle phase
	if sc.hung || res.Reason != "done" {
		for _, op := range sc.h.Ops {
			if !op.Returned {
				at := "?"
				for _, th := range res.Threads {
					if th.ID == op.TID {
						at = simrt.SiteName(th.BlockedAt)
					}
				}
				vs = append(vs, Violation{Clause: "hang", Fingerprint: sc.Kind + "." + op.Name + " blocked at " + simrt.SiteFunc(atID(res, op.TID)),
					Detail: fmt.Sprintf("%s never returned (reason=%s, blocked at %s)", op.String(), res.Reason, at)})
			}
		}
		if len(vs) == 0 {
			vs = append(vs, Violation{Clause: "hang", Fingerprint: sc.Kind + ".run-did-not-finish", Detail: "run ended with reason " + res.Reason})
		}
	}
	return dedupe(vs)
}

func atID(res *simrt.Result, tid int) int32 {
	for _, th := range res.Threads {
		if th.ID == tid {
			return th.BlockedAt
		}
	}
	return -1
}
