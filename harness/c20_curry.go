package harness

import (
	"fmt"
	"time"

	fpgo "github.com/TeaEntityLab/fpGo/v2"
	"verif.local/simrt"
)

// C20 — only the CurryDef clause (concurrent Calls accumulate whole argument blocks, one
// invocation per Call, MarkDone freezes Result) has a schedule in it; Compose/Pipe, the Curry
// adapters, Trampoline, MatchFor and CompData are pure and are NOT decided by this check.

func init() {
	register(&Property{
		ID:    "C20",
		Files: []string{"fp.go"},
		Funcs: []string{"CurryDef", "CurryNew", "Compose", "Pipe", "Trampoline", "MatchFor", "Matches", "Apply", "Either", "DefPattern", "InCaseOf", "Otherwise", "NewCompData", "MatchCompType", "DefSum", "DefProduct", "CurryParam", "MakeVariadic"},
		Gen:   genC20,
		Rule: "N in 1..6 threads each Call 1..3 times with unique argument blocks on one CurryDef; fn logs the argument list it receives, yields, returns a value derived from it; MarkDone is called from inside fn at the k-th " +
			"invocation or from another thread at a tape-chosen point; oracle: invocation argument lists form a chain extending by exactly one whole block, consistent with the real-time order of the Calls, at most one invocation per Call " +
			"(exactly one if it returned before MarkDone was invoked), none for Calls begun after MarkDone returned, Result equals the last invocation's value and stays; " +
			"non-trivial = >=2 Calls overlapped; distinct = distinct context-switch signature. Pure clauses of C20 are out of scope (see level_note)." +
			" In a third of the runs the pure clauses are evaluated from inputs on the same tape (harness/c20_pure.go): Compose/Pipe over 1..6 distinguishable functions incl. regrouping and caller-owned slices, CurryParamN/MakeVariadic* adapters, Trampoline with/without an error, MatchFor (one reused matcher) and Either over pattern permutations x 14 probe values incl. a non-compiling regex rule and a panicking effect, NewCompData incl. nested sums - input generation, not simulation.",
		Real:        []string{"fpgo.CurryDef (Call, MarkDone, IsDone, Result; callM mutex probed)"},
		Stub:        []string{"goroutine scheduler", "the curried function fn"},
		Assumptions: []string{"Compose/Pipe, CurryParamN/MakeVariadic*, Trampoline, MatchFor/Either and NewCompData are pure functions of their inputs and are not decided by simulation; a change breaking only those clauses is invisible to this check"},
	})
}

type c20Scenario struct {
	Threads    [][]int `json:"threads"`                 // block sizes per call
	DoneInside int     `json:"mark_done_at_invocation"` // 0 = never from inside
	DoneThread bool    `json:"mark_done_from_thread"`
	DoneDelay  int     `json:"mark_done_delay_yields"`
	Pure       c20Pure `json:"pure_clause_inputs"`

	h      *Hist
	probes map[string]int
	invs   []c20Inv
	calls  []*c20Call
	done   *Op
	doneIn uint64 // stamp at which MarkDone was invoked from inside fn
	doneRt uint64
	final  []int
	hung   bool
	smoke  []Violation
}

type c20Inv struct {
	args []int
	at   uint64
	ret  int
}

type c20Call struct {
	block []int
	op    *Op
}

func genC20(t *simrt.Tape, tier string) Scenario {
	sc := &c20Scenario{probes: map[string]int{}}
	maxT := 4
	if tier == "thorough" {
		maxT = 6
	}
	nt := 1 + t.Choose(maxT)
	total := 0
	for i := 0; i < nt; i++ {
		n := 1 + t.Choose(3)
		var bl []int
		for k := 0; k < n; k++ {
			bl = append(bl, 1+t.Choose(3))
			total++
		}
		sc.Threads = append(sc.Threads, bl)
	}
	if t.Bool(1, 4) {
		// one Call without arguments: fn is invoked again with the arguments so far
		ti := t.Choose(len(sc.Threads))
		sc.Threads[ti][t.Choose(len(sc.Threads[ti]))] = 0
	}
	switch t.Choose(3) {
	case 1:
		sc.DoneInside = 1 + t.Choose(total)
	case 2:
		sc.DoneThread = true
		sc.DoneDelay = t.Choose(10)
	}
	sc.Pure = genC20Pure(t)
	return sc
}

func (sc *c20Scenario) Describe() interface{} { return sc }
func (sc *c20Scenario) Config() simrt.Config {
	return simrt.Config{Horizon: time.Hour, MaxSteps: 200000, NoStall: true}
}
func (sc *c20Scenario) Probes() map[string]int            { return sc.probes }
func (sc *c20Scenario) Nontrivial(res *simrt.Result) bool { return sc.probes["calls-overlapped"] > 0 }

func c20f(args []int) int {
	h := 17
	for _, a := range args {
		h = h*31 + a
	}
	return h
}

func (sc *c20Scenario) Run(s *simrt.Sim) {
	h := &Hist{S: s}
	sc.h = h
	var c *fpgo.CurryDef[int, int]
	c = fpgo.CurryNewGenerics(func(self *fpgo.CurryDef[int, int], args ...int) int {
		cp := append([]int{}, args...)
		idx := len(sc.invs)
		sc.invs = append(sc.invs, c20Inv{args: cp, at: s.Stamp()})
		s.Yield()
		if sc.DoneInside > 0 && idx+1 == sc.DoneInside {
			sc.doneIn = s.Stamp()
			self.MarkDone()
			sc.doneRt = s.Stamp()
		}
		r := c20f(cp)
		sc.invs[idx].ret = r
		return r
	})
	var ths []*simrt.Thread
	next := 1
	for ti, sizes := range sc.Threads {
		name := fmt.Sprintf("t%d", ti)
		var mine []*c20Call
		for _, n := range sizes {
			cl := &c20Call{}
			for k := 0; k < n; k++ {
				cl.block = append(cl.block, next)
				next++
			}
			sc.calls = append(sc.calls, cl)
			mine = append(mine, cl)
		}
		ths = append(ths, s.Go(name, func() {
			for _, cl := range mine {
				cl := cl
				// the caller owns the slice it spreads into Call and reuses it afterwards
				buf := make([]int, len(cl.block), len(cl.block)+3)
				copy(buf, cl.block)
				cl.op = h.Do(name, "Call", cl.block, func() (interface{}, error) { c.Call(buf...); return nil, nil })
				for i := range buf {
					buf[i] = -777
				}
				buf = append(buf, -778, -779)
				_ = buf
				s.Yield()
			}
		}))
	}
	if sc.DoneThread {
		ths = append(ths, s.Go("marker", func() {
			for i := 0; i < sc.DoneDelay; i++ {
				s.YieldHard()
			}
			sc.done = h.Do("marker", "MarkDone", nil, func() (interface{}, error) { c.MarkDone(); return nil, nil })
		}))
	}
	done := allDone(ths)
	if !s.WaitUntilTimeout(done, time.Minute) {
		s.SetFair(true)
		if !s.WaitUntilTimeout(done, 10*time.Minute) {
			sc.hung = true
			return
		}
	}
	// Result is stable now
	for i := 0; i < 3; i++ {
		op := h.Do("main", "Result", nil, func() (interface{}, error) { return c.Result(), nil })
		if op.Panic == "" {
			sc.final = append(sc.final, op.Val.(int))
		}
		s.Yield()
	}
	// the interface{} wrapper CurryNew behaves like CurryNewGenerics (sequential smoke check)
	{
		var seen [][]interface{}
		cw := fpgo.CurryNew(func(c *fpgo.CurryDef[interface{}, interface{}], args ...interface{}) interface{} {
			seen = append(seen, append([]interface{}{}, args...))
			if len(args) >= 3 {
				c.MarkDone()
			}
			return len(args)
		})
		op := h.Do("main", "CurryNew-smoke", nil, func() (interface{}, error) { return cw.Call(1).Call("b", 3).Call(4).Result(), nil })
		if op.Panic == "" && (op.Val != 3 || fmt.Sprint(seen) != "[[1] [1 b 3]]" || !cw.IsDone()) {
			sc.smoke = append(sc.smoke, Violation{Clause: "api-smoke", Fingerprint: "CurryNew", Detail: fmt.Sprintf("CurryNew: Call(1).Call(b,3).Call(4) with MarkDone at 3 args: invocations %v, Result %v, IsDone %v", seen, op.Val, cw.IsDone())})
		}
	}
	// MarkDone freezes Result even when the result is (or refers to) the argument list fn was invoked
	// with: Calls made afterwards - from two threads here - are ignored and change nothing
	{
		ca := fpgo.CurryNewGenerics(func(self *fpgo.CurryDef[int, []int], args ...int) []int {
			if len(args) >= 3 {
				self.MarkDone()
			}
			return args
		})
		var before string
		h.Do("main", "Curry-slice-result", nil, func() (interface{}, error) {
			ca.Call(1).Call(2, 3)
			before = fmt.Sprint(ca.Result())
			return before, nil
		})
		late := []*simrt.Thread{
			s.Go("late-a", func() {
				h.Do("late-a", "Call-after-done", 4, func() (interface{}, error) { ca.Call(4); return nil, nil })
			}),
			s.Go("late-b", func() {
				h.Do("late-b", "Call-after-done", nil, func() (interface{}, error) { ca.Call(); ca.Call(5, 6); return nil, nil })
			}),
		}
		if s.WaitUntilTimeout(allDone(late), 10*time.Minute) {
			op := h.Do("main", "Result", nil, func() (interface{}, error) { return fmt.Sprint(ca.Result()), nil })
			if op.Panic == "" && (before != "[1 2 3]" || op.Val != before) {
				sc.smoke = append(sc.smoke, Violation{Clause: "mark-done", Fingerprint: "result-changed-after-done", Detail: fmt.Sprintf("fn returns its argument list; Result() was %s when MarkDone had been called (want [1 2 3]) and %v after three ignored Calls", before, op.Val)})
			}
		} else {
			sc.hung = true
		}
	}
	// with an interface-typed result the function may return values of different dynamic types, and
	// nil: Result() is always what the last invocation returned
	{
		cv := fpgo.CurryNew(func(c *fpgo.CurryDef[interface{}, interface{}], args ...interface{}) interface{} {
			switch len(args) {
			case 1:
				return "incomplete"
			case 2:
				return 42
			}
			c.MarkDone()
			return nil
		})
		var seen []string
		op := h.Do("main", "CurryNew-result-types", nil, func() (interface{}, error) {
			seen = append(seen, fmt.Sprintf("%T:%v", cv.Call("a").Result(), cv.Result()))
			seen = append(seen, fmt.Sprintf("%T:%v", cv.Call("b").Result(), cv.Result()))
			seen = append(seen, fmt.Sprintf("%T:%v", cv.Call("c").Result(), cv.Result()))
			seen = append(seen, fmt.Sprintf("%T:%v", cv.Call("d").Result(), cv.Result()))
			return nil, nil
		})
		want := "[string:incomplete int:42 <nil>:<nil> <nil>:<nil>]"
		if op.Panic == "" && (fmt.Sprint(seen) != want || !cv.IsDone()) {
			sc.smoke = append(sc.smoke, Violation{Clause: "result", Fingerprint: "interface-typed-results", Detail: fmt.Sprintf("CurryNew whose function returns a string, then an int, then nil (with MarkDone), then is called once more: Result() after each Call was %v, want %s; IsDone=%v", seen, want, cv.IsDone())})
		}
	}
	// two independent instances used alternately must not see each other's arguments (both constructors)
	{
		mk := func(tag string, log *[]string) func(c *fpgo.CurryDef[interface{}, interface{}], args ...interface{}) interface{} {
			return func(c *fpgo.CurryDef[interface{}, interface{}], args ...interface{}) interface{} {
				*log = append(*log, tag+fmt.Sprint(args))
				return fmt.Sprint(args)
			}
		}
		var la, lb []string
		a, b := fpgo.CurryNew(mk("a", &la)), fpgo.CurryNew(mk("b", &lb))
		op := h.Do("main", "CurryNew-twins", nil, func() (interface{}, error) {
			a.Call("a1")
			b.Call("b1")
			a.Call("a2")
			b.Call("b2", "b3")
			a.Call("a3")
			return fmt.Sprint(a.Result()) + " " + fmt.Sprint(b.Result()), nil
		})
		want := "[a1 a2 a3] [b1 b2 b3]"
		if op.Panic == "" && (op.Val != want || fmt.Sprint(la) != "[a[a1] a[a1 a2] a[a1 a2 a3]]" || fmt.Sprint(lb) != "[b[b1] b[b1 b2 b3]]") {
			sc.smoke = append(sc.smoke, Violation{Clause: "api-smoke", Fingerprint: "CurryNew-twin-instances", Detail: fmt.Sprintf("two CurryNew instances used alternately: results %v (want %s), invocations %v / %v", op.Val, want, la, lb)})
		}
		var ga, gb [][]int
		x := fpgo.CurryNewGenerics(func(c *fpgo.CurryDef[int, int], args ...int) int {
			ga = append(ga, append([]int{}, args...))
			return len(args)
		})
		y := fpgo.CurryNewGenerics(func(c *fpgo.CurryDef[int, int], args ...int) int {
			gb = append(gb, append([]int{}, args...))
			return len(args)
		})
		h.Do("main", "CurryNewGenerics-twins", nil, func() (interface{}, error) {
			x.Call(1)
			y.Call(10)
			x.Call(2, 3)
			y.Call(20)
			x.Call(4)
			return nil, nil
		})
		if fmt.Sprint(ga) != "[[1] [1 2 3] [1 2 3 4]]" || fmt.Sprint(gb) != "[[10] [10 20]]" {
			sc.smoke = append(sc.smoke, Violation{Clause: "api-smoke", Fingerprint: "CurryNewGenerics-twin-instances", Detail: fmt.Sprintf("two CurryNewGenerics instances used alternately: invocations %v / %v", ga, gb)})
		}
	}
	sc.runPure(s, h)
	if sc.hung {
		return
	}
	if sc.DoneInside > 0 || sc.DoneThread {
		// a Call begun after MarkDone returned must not invoke fn
		before := len(sc.invs)
		h.Do("main", "CallAfterDone", nil, func() (interface{}, error) { c.Call(999999); return nil, nil })
		if len(sc.invs) != before && (sc.done != nil || sc.doneRt != 0) {
			sc.invs = sc.invs[:before]
			sc.probes["late-call-invoked"]++
		}
		op := h.Do("main", "IsDone", nil, func() (interface{}, error) { return c.IsDone(), nil })
		if op.Panic == "" && op.Val != true && (sc.done != nil || sc.doneRt != 0) {
			sc.probes["isdone-false"]++
		}
	}
}

func eqInts(a, b []int) bool {
	if len(a) != len(b) {
		return false
	}
	for i := range a {
		if a[i] != b[i] {
			return false
		}
	}
	return true
}

func (sc *c20Scenario) Check(res *simrt.Result) []Violation {
	var vs []Violation
	vs = append(vs, goroutinePanics(res)...)
	if sc.h == nil {
		return vs
	}
	vs = append(vs, opPanics(sc.h)...)
	add := func(clause, fp, detail string) {
		vs = append(vs, Violation{Clause: clause, Fingerprint: fp, Detail: detail})
	}
	vs = append(vs, sc.smoke...)
	if res.Reason != "done" || sc.hung {
		add("hang", "calls-pending", "reason "+res.Reason+"; pending: "+pendingOps(sc.h))
		return dedupe(vs)
	}
	if len(vs) > 0 {
		return dedupe(vs)
	}
	if sc.probes["late-call-invoked"] > 0 {
		add("mark-done", "call-after-done-invoked-fn", "a Call begun after MarkDone returned invoked the function")
	}
	if sc.probes["isdone-false"] > 0 {
		add("mark-done", "IsDone-false-after-MarkDone", "IsDone() false after MarkDone returned")
	}
	delete(sc.probes, "late-call-invoked")
	delete(sc.probes, "isdone-false")
	for i, a := range sc.calls {
		for _, b := range sc.calls[i+1:] {
			if a.op != nil && b.op != nil && a.op.Inv < b.op.Ret && b.op.Inv < a.op.Ret {
				sc.probes["calls-overlapped"]++
			}
		}
	}
	invs := fmt.Sprintf("invocations=%v", sc.invArgs())
	// chain: each invocation extends the previous one by exactly one whole block
	var prev []int
	owner := map[*c20Call]int{}
	order := []*c20Call{}
	for i, in := range sc.invs {
		if len(in.args) < len(prev) || !eqInts(in.args[:len(prev)], prev) {
			add("chain", "not-an-extension", fmt.Sprintf("invocation %d got %v which does not extend the previous argument list %v; %s", i, in.args, prev, invs))
			return dedupe(vs)
		}
		blk := in.args[len(prev):]
		var who *c20Call
		for _, cl := range sc.calls {
			if eqInts(cl.block, blk) {
				who = cl
			}
		}
		if who == nil {
			add("chain", "not-one-whole-block", fmt.Sprintf("invocation %d added %v which is not exactly one Call's argument block; %s", i, blk, invs))
			return dedupe(vs)
		}
		owner[who]++
		order = append(order, who)
		prev = in.args
	}
	// real-time order
	for i, a := range order {
		for _, b := range order[i+1:] {
			if b.op != nil && a.op != nil && b.op.Returned && b.op.Ret < a.op.Inv {
				add("chain", "order-contradicts-real-time", fmt.Sprintf("Call%v returned before Call%v was invoked, but its arguments come later; %s", b.block, a.block, invs))
			}
		}
	}
	// per-Call invocation count
	var dInv, dRet uint64
	haveDone := false
	if sc.done != nil && sc.done.Returned {
		dInv, dRet, haveDone = sc.done.Inv, sc.done.Ret, true
	} else if sc.doneRt != 0 {
		dInv, dRet, haveDone = sc.doneIn, sc.doneRt, true
	}
	for _, cl := range sc.calls {
		if cl.op == nil || !cl.op.Returned {
			continue
		}
		n := owner[cl]
		if n > 1 {
			add("once-per-call", "invoked-twice", fmt.Sprintf("Call%v invoked the function %d times; %s", cl.block, n, invs))
		}
		mustRun := !haveDone || cl.op.Ret < dInv
		mustNot := haveDone && cl.op.Inv > dRet
		if mustRun && n == 0 {
			add("once-per-call", "not-invoked", fmt.Sprintf("Call%v returned before MarkDone was invoked (or MarkDone never ran) but the function was not invoked for it; %s", cl.block, invs))
		}
		if mustNot && n > 0 {
			add("mark-done", "invoked-after-done", fmt.Sprintf("Call%v began after MarkDone returned but invoked the function; %s", cl.block, invs))
		}
	}
	// MarkDone freezes the CurryDef: when it is called from inside fn (under the Call mutex) no
	// further invocation may ever start; when it is called from another thread at most the one
	// Call that already holds the mutex may still invoke fn after MarkDone returned.
	if sc.doneRt != 0 {
		for i, in := range sc.invs {
			if in.at > sc.doneRt {
				add("mark-done", "invocation-after-MarkDone-from-inside-fn", fmt.Sprintf("invocation %d started after MarkDone (called from inside invocation %d) had returned; %s", i, sc.DoneInside-1, invs))
				break
			}
		}
	} else if sc.done != nil && sc.done.Returned {
		n := 0
		for _, in := range sc.invs {
			if in.at > sc.done.Ret {
				n++
			}
		}
		if n >= 2 {
			add("mark-done", "several-invocations-after-MarkDone-returned", fmt.Sprintf("%d invocations started after MarkDone had returned (only the Call holding the mutex at that moment may still run); %s", n, invs))
		}
	}
	// Result
	if len(sc.invs) > 0 && len(sc.final) > 0 {
		last := sc.invs[len(sc.invs)-1].ret
		for _, r := range sc.final {
			if r != last {
				add("result", "result-differs-from-last-invocation", fmt.Sprintf("Result()=%d, the last invocation returned %d; %s", r, last, invs))
			}
		}
	}
	return dedupe(vs)
}

func (sc *c20Scenario) invArgs() [][]int {
	var out [][]int
	for _, in := range sc.invs {
		out = append(out, in.args)
	}
	return out
}
