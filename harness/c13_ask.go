package harness

import (
	"fmt"
	"time"

	fpgo "github.com/TeaEntityLab/fpGo/v2"
	"verif.local/simrt"
)

// C13 — Ask/Reply: every asker gets its own answer; timeouts are clean.

func init() {
	register(&Property{
		ID:    "C13",
		Files: []string{"actor.go"},
		Funcs: []string{"AskDef", "AskNew", "ActorDef"},
		Gen:   genC13,
		Rule: "one serial actor answering *AskDef requests by a per-request policy (reply now / after an inline or asynchronous virtual latency / never) and 1..6 asker threads using AskOnce, AskChannel, " +
			"AskOnceWithTimeout; latency classes relative to the timeout: far below, 0.25ms below, 0.25ms above, 10x, never; a logging ActorHandle proxy records the virtual instant Send returned; " +
			"oracles: correlation (value = f(own unique message)), in-time => reply, timeout => zero value + ErrActorAskTimeout after >= timeout, never => timeout, late => timeout (stall-free runs only), " +
			"late Reply neither panics nor blocks, the actor keeps serving; non-trivial = >=2 asks in flight at once or a reply produced after its timeout; distinct = distinct context-switch signature" +
			" Flavours: asks derived from a shared prototype, asker-supplied reply channels, same Ask object retried after a timeout, reused after successes, asked from two goroutines at once, a final ask answered by an actor that then closes itself.",
		Real: []string{"fpgo.ActorDef mailbox goroutine", "fpgo.AskDef (AskOnce, AskOnceWithTimeout, AskChannel, Reply)", "time.After on the fake clock"},
		Stub: []string{"goroutine scheduler", "clock", "actor effect (reply policy)", "ActorHandle logging proxy"},
	})
}

type c13Ask struct {
	Via     string        `json:"via"`    // AskOnce | AskChannel | AskOnceWithTimeout
	Policy  string        `json:"policy"` // now | inline | async | never
	Timeout time.Duration `json:"timeout,omitempty"`
	Latency time.Duration `json:"latency,omitempty"`
	Retry   bool          `json:"retry_same_ask_object_after_timeout,omitempty"`
}

type c13Scenario struct {
	Askers  [][]c13Ask `json:"askers"`
	NoStall bool       `json:"no_stall"`
	Shared  string     `json:"one_ask_object_asked_from_two_goroutines,omitempty"` // "", "async", "inline": reply policy of that request

	probes map[string]int
	reqs   []*c13Req
	extra  []Violation
	hung   bool
	h      *Hist
}

type c13Req struct {
	msg        int
	spec       c13Ask
	op         *Op
	ts         time.Duration // Send returned
	haveTs     bool
	tr         time.Duration // Reply invoked
	trRet      time.Duration // Reply returned (the value is in the channel / handed over)
	replied    bool
	replyRet   bool
	replyPanic string
	replyAt    string
	arrivals   int
	retryOp    *Op
}

func c13f(m int) int { return m*7 + 1 }

func genC13(t *simrt.Tape, tier string) Scenario {
	sc := &c13Scenario{probes: map[string]int{}}
	sc.NoStall = t.Bool(1, 2)
	if sc.NoStall && t.Bool(1, 4) {
		sc.Shared = []string{"async", "inline"}[t.Choose(2)]
	}
	maxA, maxN := 3, 3
	if tier == "thorough" {
		maxA, maxN = 6, 4
	}
	na := 1 + t.Choose(maxA)
	for i := 0; i < na; i++ {
		n := 1 + t.Choose(maxN)
		var asks []c13Ask
		for k := 0; k < n; k++ {
			a := c13Ask{Via: []string{"AskOnceWithTimeout", "AskOnce", "AskChannel"}[t.ChooseW([]int{3, 1, 1})]}
			if a.Via == "AskOnceWithTimeout" {
				a.Timeout = []time.Duration{time.Millisecond, 2 * time.Millisecond, 5 * time.Millisecond}[t.Choose(3)]
				a.Policy = []string{"now", "inline", "async", "never"}[t.Choose(4)]
				switch t.Choose(4) {
				case 0:
					a.Latency = a.Timeout / 8
				case 1:
					a.Latency = a.Timeout - 250*time.Microsecond
				case 2:
					a.Latency = a.Timeout + 250*time.Microsecond
				case 3:
					a.Latency = 10 * a.Timeout
				}
			} else {
				a.Policy = []string{"now", "inline", "async"}[t.Choose(3)]
				a.Latency = []time.Duration{100 * time.Microsecond, 750 * time.Microsecond, 3 * time.Millisecond}[t.Choose(3)]
			}
			if a.Policy == "now" || a.Policy == "never" {
				a.Latency = 0
			}
			if a.Via == "AskOnceWithTimeout" && a.Policy == "never" {
				// the request is never answered; after the timeout the asker asks again with the same
				// Ask object, and this time the actor answers at once
				a.Retry = t.Bool(1, 2)
			}
			asks = append(asks, a)
		}
		sc.Askers = append(sc.Askers, asks)
	}
	return sc
}

func (sc *c13Scenario) Describe() interface{} { return sc }
func (sc *c13Scenario) Config() simrt.Config {
	return simrt.Config{Horizon: time.Hour, MaxSteps: 300000, NoStall: sc.NoStall}
}
func (sc *c13Scenario) Probes() map[string]int { return sc.probes }
func (sc *c13Scenario) Nontrivial(res *simrt.Result) bool {
	return sc.probes["asks-in-flight-concurrently"] > 0 || sc.probes["reply-after-timeout"] > 0
}

type c13Proxy struct {
	a    *fpgo.ActorDef[interface{}]
	s    *simrt.Sim
	reqs func(int) *c13Req
}

func (p *c13Proxy) Send(m interface{}) {
	p.a.Send(m)
	if ask, ok := m.(*fpgo.AskDef[int, int]); ok {
		if r := p.reqs(ask.Message); r != nil && !r.haveTs {
			r.ts = p.s.Now()
			r.haveTs = true
		}
	}
}

func (sc *c13Scenario) Run(s *simrt.Sim) {
	h := &Hist{S: s}
	sc.h = h
	// the library's default instances (default Handler/Actor and whatever else the package creates when it is loaded) are
	// re-created inside every simulation: code that falls back on them runs on simulated threads (see C12, C16)
	fpgo.SimReinit()
	byMsg := map[int]*c13Req{}
	reply := func(r *c13Req, ask *fpgo.AskDef[int, int]) {
		r.tr = s.Now()
		r.replied = true
		func() {
			defer func() {
				if p := recover(); p != nil {
					r.replyPanic = normPanic(p)
				}
			}()
			ask.Reply(c13f(ask.Message))
		}()
		r.replyRet = true
		r.trRet = s.Now()
	}
	actor := fpgo.ActorNewGenerics(func(self *fpgo.ActorDef[interface{}], in interface{}) {
		ask, ok := in.(*fpgo.AskDef[int, int])
		if !ok {
			return
		}
		r := byMsg[ask.Message]
		if r == nil {
			return
		}
		r.arrivals++
		if r.spec.Retry && r.arrivals >= 2 {
			ask.Reply(c13f(ask.Message))
			return
		}
		switch r.spec.Policy {
		case "now":
			reply(r, ask)
		case "inline":
			if r.spec.Timeout > 0 && r.spec.Latency > r.spec.Timeout {
				s.Fault("reply-later-than-timeout")
			}
			s.Sleep(r.spec.Latency)
			reply(r, ask)
		case "async":
			if r.spec.Timeout > 0 && r.spec.Latency > r.spec.Timeout {
				s.Fault("reply-later-than-timeout")
			}
			s.Go(fmt.Sprintf("replier%d", r.msg), func() {
				s.Sleep(r.spec.Latency)
				reply(r, ask)
			})
		case "never":
			s.Fault("request-never-answered")
		case "reply-then-close":
			s.Fault("actor-closes-after-replying")
			// the graceful-stop idiom: answer the last question, then close oneself
			reply(r, ask)
			self.Close()
		}
	})
	proxy := &c13Proxy{a: actor, s: s, reqs: func(m int) *c13Req { return byMsg[m] }}
	proto := fpgo.AskNewGenerics[int, int](-1)
	doAsk := func(name string, r *c13Req) {
		ask := fpgo.AskNewGenerics[int, int](r.msg)
		switch r.msg % 3 {
		case 0:
			ask = (&fpgo.AskDef[int, int]{}).New(r.msg) // method-style constructor on a zero value
		case 1:
			ask = proto.New(r.msg) // derived from a shared, fully constructed prototype
		case 2:
			// reply channel supplied by the asker: buffered for asks that may time out (a late reply on an
			// unbuffered channel nobody reads any more is the asker's own doing), unbuffered otherwise
			if r.spec.Via == "AskOnceWithTimeout" {
				ask = fpgo.AskNewByOptionsGenerics[int, int](r.msg, make(chan int, 1+r.msg%2))
			} else if r.msg%2 == 0 {
				ask = fpgo.AskNewByOptionsGenerics[int, int](r.msg, make(chan int))
			} else {
				ask = (&fpgo.AskDef[int, int]{}).NewByOptions(r.msg, make(chan int))
			}
		}
		switch r.spec.Via {
		case "AskOnce":
			r.op = h.Do(name, "AskOnce", r.msg, func() (interface{}, error) { return ask.AskOnce(proxy), nil })
		case "AskOnceWithTimeout":
			r.op = h.Do(name, "AskOnceWithTimeout", r.msg, func() (interface{}, error) { return ask.AskOnceWithTimeout(proxy, r.spec.Timeout) })
			// (stall-free runs only: an injected stall of the actor may legitimately outlast any timeout)
			if r.spec.Retry && sc.NoStall && r.op.Returned && r.op.Panic == "" && r.op.Err == fpgo.ErrActorAskTimeout {
				r.retryOp = h.Do(name, "AskOnceWithTimeout-retry", r.msg, func() (interface{}, error) { return ask.AskOnceWithTimeout(proxy, 10*time.Minute) })
				if r.retryOp.Returned && r.retryOp.Panic == "" && (r.retryOp.Err != nil || r.retryOp.Val != c13f(r.msg)) {
					sc.extra = append(sc.extra, Violation{Clause: "timeout", Fingerprint: "retry-after-clean-timeout-fails",
						Detail: fmt.Sprintf("request %d timed out without ever being answered; the same Ask object was then asked again and the actor replied %d at once, but the asker got %s", r.msg, c13f(r.msg), r.retryOp.String())})
				}
				sc.probes["retry-with-same-ask-object"]++
			}
		case "AskChannel":
			r.op = h.Do(name, "AskChannel", r.msg, func() (interface{}, error) {
				ch := ask.AskChannel(proxy)
				tk := simrt.B(-4)
				v := <-ch
				simrt.U(tk)
				return v, nil
			})
		}
	}
	var ths []*simrt.Thread
	msg := 0
	for i, asks := range sc.Askers {
		name := fmt.Sprintf("asker%d", i)
		var mine []*c13Req
		for _, a := range asks {
			msg++
			r := &c13Req{msg: msg, spec: a}
			byMsg[msg] = r
			sc.reqs = append(sc.reqs, r)
			mine = append(mine, r)
		}
		ths = append(ths, s.Go(name, func() {
			for _, r := range mine {
				doAsk(name, r)
				s.Yield()
			}
		}))
	}
	done := allDone(ths)
	if !s.WaitUntilTimeout(done, time.Minute) {
		s.SetFair(true)
		if !s.WaitUntilTimeout(done, 10*time.Minute) {
			sc.hung = true
		}
	}
	s.SetFair(true)
	if sc.Shared != "" && !sc.hung {
		// One Ask object, two requests in flight at once: an impatient AskOnceWithTimeout (1ms) and a patient one
		// (10 min) from another goroutine; the actor answers every arrival 5ms later. The impatient call times out
		// cleanly; the patient call is a request of its own and must get the answer (two replies are produced, the
		// reply channel holds one, nobody blocks). Stall-free runs only.
		msg++
		sr := &c13Req{msg: msg, spec: c13Ask{Via: "shared", Policy: sc.Shared, Latency: 5 * time.Millisecond}}
		byMsg[msg] = sr
		ask := fpgo.AskNewGenerics[int, int](sr.msg)
		var opA, opB *Op
		ta := s.Go("shared-impatient", func() {
			opA = h.Do("shared-impatient", "AskOnceWithTimeout", sr.msg, func() (interface{}, error) { return ask.AskOnceWithTimeout(proxy, time.Millisecond) })
		})
		tb := s.Go("shared-patient", func() {
			opB = h.Do("shared-patient", "AskOnceWithTimeout", sr.msg, func() (interface{}, error) { return ask.AskOnceWithTimeout(proxy, 10*time.Minute) })
		})
		s.WaitUntilTimeout(func() bool { return ta.Done() && tb.Done() }, 30*time.Minute)
		sc.probes["one-ask-object-two-requests-in-flight"]++
		if opA != nil && opA.Returned && opA.Panic == "" && opA.Err == nil && opA.Val != c13f(sr.msg) {
			sc.extra = append(sc.extra, Violation{Clause: "correlation", Fingerprint: "shared-ask-object-wrong-answer", Detail: "impatient call on a shared Ask object: " + opA.String()})
		}
		if opB == nil || !opB.Returned {
			sc.extra = append(sc.extra, Violation{Clause: "hang", Fingerprint: "shared-ask-object-patient-call-never-returned", Detail: "the patient AskOnceWithTimeout on an Ask object that another goroutine asked (and timed out on) at the same time never returned"})
		} else if opB.Panic == "" && (opB.Err != nil || opB.Val != c13f(sr.msg)) {
			sc.extra = append(sc.extra, Violation{Clause: "timeout", Fingerprint: "shared-ask-object-patient-call-not-answered",
				Detail: fmt.Sprintf("one Ask object asked from two goroutines: the impatient call (1ms) ended with %v; the patient call (10min) got %s although the actor replied to every arrival after 5ms (want %d, nil)", opA, opB.String(), c13f(sr.msg))})
		}
	}
	// let late replies happen, then check that the actor still serves
	s.Sleep(200 * time.Millisecond)
	msg++
	fr := &c13Req{msg: msg, spec: c13Ask{Via: "AskOnceWithTimeout", Policy: "now", Timeout: time.Second}}
	byMsg[msg] = fr
	doAsk("main", fr)
	if fr.op.Panic == "" && (fr.op.Err != nil || fr.op.Val != c13f(fr.msg)) {
		sc.extra = append(sc.extra, Violation{Clause: "actor-liveness", Fingerprint: "actor-not-serving-after-asks",
			Detail: fmt.Sprintf("follow-up %s: the actor no longer answers (a late Reply blocked or killed it?)", fr.op.String())})
	}
	s.Sleep(100 * time.Millisecond)
	// One Ask object used again and again after SUCCESSFUL asks (through every entry point): each call is a
	// request of its own and gets the actor's reply
	{
		msg++
		rr := &c13Req{msg: msg, spec: c13Ask{Via: "reused", Policy: "now"}}
		byMsg[msg] = rr
		rask := fpgo.AskNewGenerics[int, int](rr.msg)
		switch msg % 3 {
		case 1:
			rask = fpgo.AskNewByOptionsGenerics[int, int](rr.msg, make(chan int)) // an asker-supplied unbuffered reply channel
		case 2:
			rask = (&fpgo.AskDef[int, int]{}).NewByOptions(rr.msg, make(chan int, 2))
		}
		var res []string
		rt := s.Go("reuser", func() {
			h.Do("reuser", "AskOnce x2, AskOnceWithTimeout, AskChannel on one Ask object", rr.msg, func() (interface{}, error) {
				res = append(res, fmt.Sprint(rask.AskOnce(proxy)))
				res = append(res, fmt.Sprint(rask.AskOnce(proxy)))
				v, err := rask.AskOnceWithTimeout(proxy, 10*time.Minute)
				res = append(res, fmt.Sprint(v, err))
				ch := rask.AskChannel(proxy)
				tk := simrt.B(-4)
				v2, ok := <-ch
				simrt.U(tk)
				res = append(res, fmt.Sprint(v2, ok))
				return nil, nil
			})
		})
		want := fmt.Sprint([]string{fmt.Sprint(c13f(rr.msg)), fmt.Sprint(c13f(rr.msg)), fmt.Sprint(c13f(rr.msg), nil), fmt.Sprint(c13f(rr.msg), true)})
		if !s.WaitUntilTimeout(rt.Done, 30*time.Minute) {
			sc.extra = append(sc.extra, Violation{Clause: "hang", Fingerprint: "ask-object-reused-after-success-hangs", Detail: fmt.Sprintf("one Ask object asked four times in a row (actor answers at once): got %v so far, then no return", res)})
		} else if fmt.Sprint(res) != want {
			sc.extra = append(sc.extra, Violation{Clause: "correlation", Fingerprint: "ask-object-reused-after-success", Detail: fmt.Sprintf("one Ask object asked four times in a row (AskOnce, AskOnce, AskOnceWithTimeout, AskChannel; the actor answers each at once): got %v, want %s", res, want)})
		}
		sc.probes["ask-object-reused-after-successful-asks"]++
	}
	// scatter/gather: several asks built over ONE asker-owned buffered reply channel, sent one after the other, the
	// answers collected afterwards - every request's answer arrives (an earlier answer waiting in the channel is not
	// in the way of a later request)
	{
		shared := make(chan int, 4)
		want := map[int]bool{}
		var got []int
		gt := s.Go("gatherer", func() {
			h.Do("gatherer", "AskChannel x3 over one reply channel, then gather", nil, func() (interface{}, error) {
				for k := 0; k < 3; k++ {
					msg++
					rr := &c13Req{msg: msg, spec: c13Ask{Via: "gather", Policy: "now"}}
					byMsg[msg] = rr
					want[c13f(msg)] = true
					fpgo.AskNewByOptionsGenerics[int, int](msg, shared).AskChannel(proxy)
					s.Sleep(time.Millisecond) // the answer is in the channel by now
				}
				for k := 0; k < 3; k++ {
					tk := simrt.B(-4)
					tm := time.NewTimer(10 * time.Minute)
					select {
					case v := <-shared:
						simrt.U(tk)
						got = append(got, v)
					case <-tm.C:
						simrt.U(tk)
					}
					tm.Stop()
				}
				return nil, nil
			})
		})
		ok := s.WaitUntilTimeout(gt.Done, 60*time.Minute)
		bad := !ok || len(got) != 3
		for _, v := range got {
			if !want[v] {
				bad = true
			}
			delete(want, v)
		}
		if bad {
			sc.extra = append(sc.extra, Violation{Clause: "correlation", Fingerprint: "asks-sharing-one-reply-channel", Detail: fmt.Sprintf("three asks over one asker-owned buffered reply channel, each answered at once: gathered %v, still missing the answers %v (finished=%v)", got, want, ok)})
		}
	}
	// The library's default Actor is a closed placeholder: it never answers, so an ask with a timeout ends with the
	// timeout error (and does not hang in the hand-over)
	{
		var dop *Op
		dt := s.Go("asker-of-default-actor", func() {
			dop = h.Do("asker-of-default-actor", "AskOnceWithTimeout", -1, func() (interface{}, error) {
				return fpgo.AskNewGenerics[int, int](-1).AskOnceWithTimeout(fpgo.Actor.GetDefault(), time.Millisecond)
			})
		})
		if !s.WaitUntilTimeout(dt.Done, 30*time.Minute) {
			sc.extra = append(sc.extra, Violation{Clause: "hang", Fingerprint: "ask-on-the-closed-default-actor-never-returns", Detail: "AskOnceWithTimeout(Actor.GetDefault(), 1ms) did not return"})
		} else if dop != nil && dop.Panic == "" && (dop.Err != fpgo.ErrActorAskTimeout || dop.Val != 0) {
			sc.extra = append(sc.extra, Violation{Clause: "timeout", Fingerprint: "ask-on-the-closed-default-actor", Detail: "AskOnceWithTimeout(Actor.GetDefault(), 1ms): " + dop.String() + ", want (0, ErrActorAskTimeout)"})
		}
	}
	// Last of all: a question whose answer is followed by the actor closing itself. The asker talks to the actor
	// directly (no proxy). The answer was given in time, so the asker gets it, closed actor or not.
	msg++
	lr := &c13Req{msg: msg, spec: c13Ask{Via: "AskOnceWithTimeout", Policy: "reply-then-close", Timeout: 10 * time.Minute}}
	byMsg[msg] = lr
	lask := fpgo.AskNewGenerics[int, int](lr.msg)
	var lop *Op
	lt := s.Go("last-asker", func() {
		lop = h.Do("last-asker", "AskOnceWithTimeout", lr.msg, func() (interface{}, error) { return lask.AskOnceWithTimeout(actor, 10*time.Minute) })
	})
	// ... while two more askers are in the hand-over or right behind: each of them comes back, with the answer or
	// (the mailbox having been closed under them) with the timeout - nobody hangs
	var others []*simrt.Thread
	for k := 0; k < 2; k++ {
		msg++
		or := &c13Req{msg: msg, spec: c13Ask{Via: "AskOnceWithTimeout", Policy: "now", Timeout: time.Minute}}
		byMsg[msg] = or
		name := fmt.Sprintf("asker-beside-the-last-%d", k)
		oask := fpgo.AskNewGenerics[int, int](or.msg)
		others = append(others, s.Go(name, func() {
			op := h.Do(name, "AskOnceWithTimeout", or.msg, func() (interface{}, error) { return oask.AskOnceWithTimeout(actor, time.Minute) })
			if op.Panic == "" && op.Err == nil && op.Val != c13f(or.msg) {
				sc.extra = append(sc.extra, Violation{Clause: "correlation", Fingerprint: "asker-beside-a-closing-actor-wrong-answer", Detail: op.String()})
			}
		}))
	}
	if !s.WaitUntilTimeout(allDone(others), 30*time.Minute) {
		sc.extra = append(sc.extra, Violation{Clause: "hang", Fingerprint: "askers-beside-a-closing-actor-never-return", Detail: "askers that were sending to an actor while it answered another request and closed itself never returned: " + pendingOps(h)})
	}
	if !s.WaitUntilTimeout(lt.Done, 30*time.Minute) {
		sc.extra = append(sc.extra, Violation{Clause: "hang", Fingerprint: "ask-answered-by-a-closing-actor-never-returns", Detail: "AskOnceWithTimeout to an actor that replies and then closes itself never returned"})
	} else if lop != nil && lop.Panic == "" && (lop.Err != nil || lop.Val != c13f(lr.msg)) {
		sc.extra = append(sc.extra, Violation{Clause: "timeout", Fingerprint: "answer-of-a-closing-actor-lost",
			Detail: fmt.Sprintf("the actor replied %d and then closed itself; %s (timeout 10min), want the reply with a nil error", c13f(lr.msg), lop.String())})
	}
	sc.probes["ask-answered-by-an-actor-that-then-closes"]++
}

func (sc *c13Scenario) Check(res *simrt.Result) []Violation {
	var vs []Violation
	vs = append(vs, goroutinePanics(res)...)
	if sc.h == nil {
		return vs
	}
	vs = append(vs, opPanics(sc.h)...)
	vs = append(vs, sc.extra...)
	add := func(clause, fp, detail string) {
		vs = append(vs, Violation{Clause: clause, Fingerprint: fp, Detail: detail})
	}
	if res.Reason != "done" {
		add("hang", "run-did-not-finish", "run ended with reason "+res.Reason+"; pending: "+pendingOps(sc.h))
		return dedupe(vs)
	}
	for i, a := range sc.reqs {
		for _, b := range sc.reqs[i+1:] {
			if a.op != nil && b.op != nil && a.op.Inv < b.op.Ret && b.op.Inv < a.op.Ret {
				sc.probes["asks-in-flight-concurrently"]++
			}
		}
	}
	for _, r := range sc.reqs {
		desc := fmt.Sprintf("request %d via %s policy=%s timeout=%v latency=%v", r.msg, r.spec.Via, r.spec.Policy, r.spec.Timeout, r.spec.Latency)
		if r.replyPanic != "" {
			add("reply-panic", r.replyPanic, desc+": Reply panicked inside the actor: "+r.replyPanic)
		}
		if r.replied && !r.replyRet && r.replyPanic == "" {
			add("reply-blocked", "Reply-never-returned", desc+": Reply was still blocked at the end of the run")
		}
		op := r.op
		if op == nil {
			continue
		}
		if !op.Returned {
			if r.spec.Policy != "never" {
				add("hang", r.spec.Via+"-never-returned", desc+": "+op.String())
			}
			continue
		}
		if op.Panic != "" {
			continue
		}
		if op.Err == nil {
			// correlation
			if op.Val != c13f(r.msg) {
				add("correlation", r.spec.Via+"-wrong-answer", fmt.Sprintf("%s returned %v, want %d (the reply to its own message)", desc, op.Val, c13f(r.msg)))
			}
			if r.spec.Policy == "never" {
				add("correlation", r.spec.Via+"-answer-without-reply", fmt.Sprintf("%s returned %v although the actor never replied", desc, op.Val))
			}
		}
		if r.spec.Via != "AskOnceWithTimeout" || !r.haveTs {
			continue
		}
		tau := r.spec.Timeout
		if op.Err != nil {
			if op.Err != fpgo.ErrActorAskTimeout {
				add("timeout", "wrong-error", desc+": "+op.String())
				continue
			}
			if op.Val != 0 {
				add("timeout", "non-zero-value-with-timeout", desc+": "+op.String())
			}
			if op.TRet-r.ts < tau {
				add("timeout", "early-timeout", fmt.Sprintf("%s: timeout reported %v after Send returned, timeout is %v", desc, op.TRet-r.ts, tau))
			}
			// the reply counts as "in time" only once Reply has returned (an injected stall may freeze
			// the replier between the invocation of Reply and its channel send)
			if r.replyRet && r.replyPanic == "" && r.trRet < r.ts+tau {
				add("timeout", "timeout-although-replied-in-time", fmt.Sprintf("%s: Reply had returned %v after Send returned (< %v) but the asker got a timeout", desc, r.trRet-r.ts, tau))
			}
			if r.replied {
				sc.probes["reply-after-timeout"]++
			}
		} else {
			if r.replied && sc.NoStall && r.tr > r.ts+tau {
				add("timeout", "late-reply-accepted", fmt.Sprintf("%s: Reply was invoked %v after Send returned (> %v) but the asker got the value with a nil error", desc, r.tr-r.ts, tau))
			}
		}
	}
	if sc.hung && len(vs) == 0 {
		add("hang", "askers-pending", "askers did not finish: "+pendingOps(sc.h))
	}
	return dedupe(vs)
}
