package harness

import (
	"fmt"
	"time"

	fpgo "github.com/TeaEntityLab/fpGo/v2"
	"verif.local/simrt"
)

// C14 — Coroutines pair every YieldFrom with the matching YieldRef, in order, per caller.

func init() {
	register(&Property{
		ID:    "C14",
		Files: []string{"cor.go", "monadIO.go"},
		Funcs: []string{"CorDef", "CorNew"},
		Gen:   genC14,
		Rule: "a target coroutine (generator shape fixed / echo / accumulate) performing exactly as many YieldRefs as the 1..8 callers issue YieldFrom requests (plus one for StartWithVal), callers are started coroutines, DoNotation effects or never-started coroutine objects used from an ordinary goroutine, " +
			"optionally mixed with YieldFromIO over a MonadIO observed on a handler; oracles over the logs of both sides: every request taken exactly once, its caller gets the value yielded by the YieldRef that took it, " +
			"per-caller order, StartWithVal value reaches the first YieldRef, DoNotation/YieldFromIO results, IsStarted/IsDone, nobody left blocked; non-trivial = >=2 callers with requests in flight at once; distinct = distinct context-switch signature" +
			" Flavours: crowd of callers with a late start, delegating target, redundant Start/StartWithVal, YieldFromIO over sibling compositions and with preset SubscribeOn, YieldFromIO on a finished coroutine, epilogue with a second generator started with a value.",
		Real: []string{"fpgo.CorDef (Start, StartWithVal, YieldRef, YieldFrom, YieldFromIO, DoNotation, close)", "fpgo.MonadIODef", "fpgo.HandlerDef"},
		Stub: []string{"goroutine scheduler", "coroutine effects (harness closures)"},
	})
}

type c14Caller struct {
	Kind  string   `json:"kind"` // cor | do
	Steps []string `json:"steps"`
}

type c14Scenario struct {
	Shape     string      `json:"shape"`
	StartVal  bool        `json:"start_with_val"`
	IOHandler bool        `json:"io_on_handler"`
	IOPreSub  string      `json:"io_preset_subscribe_on,omitempty"` // "" | same | closed
	Delegate  bool        `json:"target_delegates_to_sub_generator,omitempty"`
	Restart   string      `json:"redundant_start,omitempty"` // "", "Start", "StartWithVal": called again on the running target
	RestartD  int         `json:"redundant_start_delay_yields,omitempty"`
	LateStart int         `json:"target_started_after_n_yields,omitempty"` // callers may queue requests before the target runs
	Gated     bool        `json:"callers_wait_for_IsStarted,omitempty"`    // StartWithVal runs concurrently with callers that poll IsStarted()
	Callers   []c14Caller `json:"callers"`

	h      *Hist
	probes map[string]int
	tlog   []c14T
	reqs   []*c14Req
	extra  []Violation
	hung   bool
	v0     int
}

type c14T struct{ k, y, x int }

type c14Req struct {
	caller int
	seq    int
	x      int
	op     *Op
}

func genC14(t *simrt.Tape, tier string) Scenario {
	sc := &c14Scenario{probes: map[string]int{}}
	sc.Shape = []string{"fixed", "echo", "accumulate"}[t.Choose(3)]
	sc.StartVal = t.Bool(1, 3)
	sc.IOHandler = t.Bool(1, 2)
	// the IO handed to YieldFromIO already carries a SubscribeOn handler (the ObserveOn handler itself,
	// or a handler that has been closed): YieldFromIO must deliver the value to the coroutine regardless
	sc.IOPreSub = []string{"", "same", "closed"}[t.ChooseW([]int{3, 1, 1})]
	if !sc.StartVal && t.Bool(1, 4) {
		sc.LateStart = 1 + t.Choose(12)
	}
	if sc.StartVal && t.Bool(1, 2) {
		// the callers are already running and wait for target.IsStarted() before their first request;
		// StartWithVal is called concurrently: its value must still reach the first YieldRef
		sc.Gated = true
		sc.LateStart = 1 + t.Choose(8)
	}
	if sc.LateStart == 0 && t.Bool(1, 3) {
		// starting an already started coroutine again must change nothing
		sc.Restart = []string{"StartWithVal", "Start"}[t.Choose(2)]
		sc.RestartD = t.Choose(10)
	}
	maxC, maxS := 4, 3
	if tier == "thorough" {
		if t.Bool(1, 3) {
			maxC, maxS = 8, 2
		} else {
			maxC, maxS = 5, 5
		}
	}
	nc := 1 + t.Choose(maxC)
	if t.Bool(1, 6) {
		// a crowd: more callers than the target's request buffer (5), often all of them at the
		// hand-over before the target has been started
		nc, maxS = 6+t.Choose(3), 2
		if !sc.StartVal && sc.Restart == "" && t.Bool(1, 2) {
			sc.LateStart = 20 + t.Choose(30)
		}
	}
	// the target is itself a caller: between two YieldRefs it asks a sub-generator (YieldFrom)
	sc.Delegate = t.Bool(1, 4)
	for i := 0; i < nc; i++ {
		c := c14Caller{Kind: []string{"cor", "cor", "do", "handle"}[t.Choose(4)]}
		n := 1 + t.Choose(maxS)
		for k := 0; k < n; k++ {
			if t.Bool(1, 6) {
				c.Steps = append(c.Steps, "YieldFromIO")
			} else {
				c.Steps = append(c.Steps, "YieldFrom")
			}
		}
		sc.Callers = append(sc.Callers, c)
	}
	return sc
}

func (sc *c14Scenario) Describe() interface{} { return sc }
func (sc *c14Scenario) Config() simrt.Config {
	return simrt.Config{Horizon: time.Hour, MaxSteps: 300000, NoStall: true}
}
func (sc *c14Scenario) Probes() map[string]int { return sc.probes }
func (sc *c14Scenario) Nontrivial(res *simrt.Result) bool {
	return sc.probes["requests-of-two-callers-in-flight"] > 0
}

func (sc *c14Scenario) Run(s *simrt.Sim) {
	h := &Hist{S: s}
	sc.h = h
	// the library's default instances (default Handler/Actor and whatever else the package creates when it is loaded) are
	// re-created inside every simulation: code that falls back on them runs on simulated threads (see C12, C16)
	fpgo.SimReinit()
	total := 0
	for _, c := range sc.Callers {
		for _, st := range c.Steps {
			if st == "YieldFrom" {
				total++
			}
		}
	}
	R := total
	if sc.StartVal {
		R++
	}
	var target *fpgo.CorDef[int]
	targetReturned := false
	var subGen *fpgo.CorDef[int]
	if sc.Delegate {
		subGen = fpgo.CorNewGenerics[int](func() {
			for k := 0; k < R; k++ {
				subGen.YieldRef(600000 + k)
				s.Yield()
			}
		})
		s.Go("subgen-starter", func() { subGen.Start() })
	}
	target = fpgo.CorNewGenerics[int](func() {
		prev, sum := -1, 0
		for k := 0; k < R; k++ {
			if sc.Delegate {
				op := h.Do("target", "YieldFrom-subgen", 700000+k, func() (interface{}, error) { return target.YieldFrom(subGen, 700000+k), nil })
				if op.Panic == "" && op.Val != 600000+k {
					sc.extra = append(sc.extra, Violation{Clause: "pairing", Fingerprint: "delegating-target-wrong-answer", Detail: fmt.Sprintf("the target asked its sub-generator for the %d-th time and got %v, want %d", k, op.Val, 600000+k)})
				}
			}
			var y int
			switch sc.Shape {
			case "fixed":
				y = 100 + k
			case "echo":
				y = prev
			case "accumulate":
				y = sum
			}
			x := target.YieldRef(y)
			sc.tlog = append(sc.tlog, c14T{k, y, x})
			prev = x
			sum += x
			s.Yield()
		}
		targetReturned = true
	})
	if op := h.Do("main", "IsStarted", nil, func() (interface{}, error) { return target.IsStarted(), nil }); op.Val != false {
		sc.extra = append(sc.extra, Violation{Clause: "lifecycle", Fingerprint: "IsStarted-before-start", Detail: "IsStarted() true before Start"})
	}
	sc.v0 = 7000001
	var lateStarter *simrt.Thread
	if sc.LateStart > 0 {
		// the callers' first requests are buffered in the target's mailbox before its effect runs
		lateStarter = s.Go("late-starter", func() {
			for i := 0; i < sc.LateStart; i++ {
				s.YieldHard()
			}
			if sc.LateStart%3 == 0 && !sc.Gated {
				// ... and a long time later (callers wait for their answers as long as it takes)
				s.Sleep(time.Duration(2+sc.LateStart) * time.Second)
				sc.probes["target-started-seconds-after-the-first-requests"]++
			}
			if sc.Gated {
				h.Do("late-starter", "StartWithVal", sc.v0, func() (interface{}, error) { target.StartWithVal(sc.v0); return nil, nil })
			} else {
				h.Do("late-starter", "Start", nil, func() (interface{}, error) { target.Start(); return nil, nil })
			}
		})
	} else {
		if sc.StartVal {
			h.Do("main", "StartWithVal", sc.v0, func() (interface{}, error) { target.StartWithVal(sc.v0); return nil, nil })
		} else {
			h.Do("main", "Start", nil, func() (interface{}, error) { target.Start(); return nil, nil })
		}
		if op := h.Do("main", "IsStarted", nil, func() (interface{}, error) { return target.IsStarted(), nil }); op.Val != true {
			sc.extra = append(sc.extra, Violation{Clause: "lifecycle", Fingerprint: "IsStarted-after-start", Detail: "IsStarted() false after Start returned"})
		}
	}
	var hd *fpgo.HandlerDef
	hdTID := 0
	if sc.IOHandler {
		hd = fpgo.Handler.New()
		got := false
		hd.Post(func() { hdTID = s.Self().ID; got = true })
		s.WaitUntilTimeout(func() bool { return got }, time.Minute)
	}
	var closedHd *fpgo.HandlerDef
	if sc.IOPreSub == "closed" {
		closedHd = fpgo.Handler.New()
		closedHd.Close()
	}
	callersDone := 0
	var ths []*simrt.Thread
	for ci, c := range sc.Callers {
		ci, c := ci, c
		name := fmt.Sprintf("caller%d", ci)
		body := func(self *fpgo.CorDef[int]) int {
			last := 0
			if sc.Gated {
				for !target.IsStarted() {
					s.Sleep(time.Microsecond) // polling with a virtual pause: a spinning thread must not starve the starter
				}
			}
			for si, st := range c.Steps {
				x := (ci+1)*1000 + si
				if ci == 0 && si == 0 {
					x = 0 // one request carries the zero value
				}
				if st == "YieldFrom" {
					r := &c14Req{caller: ci, seq: si, x: x}
					sc.reqs = append(sc.reqs, r)
					r.op = h.Do(name, "YieldFrom", x, func() (interface{}, error) { return self.YieldFrom(target, x), nil })
					if r.op.Panic == "" {
						last = r.op.Val.(int)
					}
				} else {
					io := fpgo.MonadIOJustGenerics[int](x)
					effTID := -1
					if (ci+si)%3 == 0 && hd != nil {
						// an IO with an effect of its own: with ObserveOn(hd) it runs on hd's goroutine, whoever yields from it
						io = fpgo.MonadIONewGenerics(func() int { effTID = s.Self().ID; return x })
					}
					if (ci+si)%3 != 0 {
						// the IO is one of two compositions derived from a common origin chain; the other one, derived
						// later, computes something else
						origin := io
						for k := 0; k < []int{3, 5, 6, 7, 2, 4}[(ci*7+si)%6]; k++ {
							origin = origin.FlatMap(func(v int) *fpgo.MonadIODef[int] { return fpgo.MonadIOJustGenerics(v) })
						}
						io = origin.FlatMap(func(v int) *fpgo.MonadIODef[int] { return fpgo.MonadIOJustGenerics(v) })
						_ = origin.FlatMap(func(v int) *fpgo.MonadIODef[int] { return fpgo.MonadIOJustGenerics(v + 500000) })
					}
					if hd != nil {
						io = io.ObserveOn(hd)
					}
					switch {
					case sc.IOPreSub == "same" && hd != nil:
						io = io.SubscribeOn(hd)
					case sc.IOPreSub == "closed":
						io = io.SubscribeOn(closedHd)
					}
					// (an IO whose effect panics, recovered by the caller, before this call was tried and withdrawn: DESIGN.md §9, 17)
					op := h.Do(name, "YieldFromIO", x, func() (interface{}, error) { return self.YieldFromIO(io), nil })
					if op.Panic == "" && effTID >= 0 && hdTID != 0 && effTID != hdTID {
						sc.extra = append(sc.extra, Violation{Clause: "yield-from-io", Fingerprint: "effect-not-on-the-observe-handler", Detail: fmt.Sprintf("%s: the IO carries ObserveOn(h) (pre-set SubscribeOn: %q); its effect ran on T%d, h is T%d", op.String(), sc.IOPreSub, effTID, hdTID)})
					}
					if op.Panic == "" && op.Val != x {
						sc.extra = append(sc.extra, Violation{Clause: "yield-from-io", Fingerprint: "wrong-value", Detail: op.String() + ": want the IO's value"})
					}
				}
				s.Yield()
			}
			callersDone++
			return 900000 + ci*10 + last%10
		}
		if c.Kind == "cor" && ci%3 == 1 {
			// method-style constructor that also starts the coroutine
			var self *fpgo.CorDef[int]
			ready := false
			ths = append(ths, s.Go(name+"-starter", func() {
				self = (&fpgo.CorDef[int]{}).NewAndStart(func() {
					for !ready {
						s.Sleep(time.Microsecond)
					}
					body(self)
				})
				ready = true
			}))
		} else if c.Kind == "cor" {
			var self *fpgo.CorDef[int]
			self = fpgo.CorNewGenerics[int](func() { body(self) })
			ths = append(ths, s.Go(name+"-starter", func() { self.Start() }))
		} else if c.Kind == "handle" {
			// a coroutine object used as a caller identity only: it has no effect, is never started, and an ordinary
			// goroutine issues its requests
			self := fpgo.CorNewGenerics[int](nil)
			ths = append(ths, s.Go(name+"-handle", func() { body(self) }))
		} else {
			ths = append(ths, s.Go(name+"-do", func() {
				var z fpgo.CorDef[int]
				var want int
				op := h.Do(name, "DoNotation", nil, func() (interface{}, error) {
					return z.DoNotation(func(self *fpgo.CorDef[int]) int { want = body(self); return want }), nil
				})
				if op.Panic == "" && op.Val != want {
					sc.extra = append(sc.extra, Violation{Clause: "do-notation", Fingerprint: "wrong-result", Detail: fmt.Sprintf("%s: the effect returned %d", op.String(), want)})
				}
			}))
		}
	}
	if sc.Restart != "" {
		ths = append(ths, s.Go("restarter", func() {
			for i := 0; i < sc.RestartD; i++ {
				s.YieldHard()
			}
			if sc.Restart == "Start" {
				h.Do("restarter", "Start-again", nil, func() (interface{}, error) { target.Start(); return nil, nil })
			} else {
				h.Do("restarter", "StartWithVal-again", 8000002, func() (interface{}, error) { target.StartWithVal(8000002); return nil, nil })
			}
		}))
	}
	n := len(sc.Callers)
	done := func() bool {
		if callersDone != n || !targetReturned {
			return false
		}
		if lateStarter != nil && !lateStarter.Done() {
			return false
		}
		for _, th := range ths {
			if !th.Done() {
				return false
			}
		}
		return true
	}
	if !s.WaitUntilTimeout(done, time.Minute) {
		s.SetFair(true)
		if !s.WaitUntilTimeout(done, 10*time.Minute) {
			sc.hung = true
			return
		}
	}
	s.SetFair(true)
	if !s.WaitUntilTimeout(func() bool { return target.IsDone() }, time.Minute) {
		sc.extra = append(sc.extra, Violation{Clause: "lifecycle", Fingerprint: "IsDone-after-return", Detail: "IsDone() still false long after the effect returned"})
	}
	// A second, unrelated generator is started with StartWithVal after requests have been served elsewhere (any
	// recycled request envelope must come back clean), while a caller of the first pair still has a request to make
	{
		var genA, genB, cx *fpgo.CorDef[int]
		x1, x2, inB, gate := -1, -1, -1, false
		genA = fpgo.CorNewGenerics[int](func() {
			genA.YieldRef(10)
			genA.YieldRef(11)
		})
		cx = fpgo.CorNewGenerics[int](func() {
			x1 = cx.YieldFrom(genA, 1)
			for !gate {
				s.Sleep(time.Microsecond)
			}
			x2 = cx.YieldFrom(genA, 2)
		})
		genB = fpgo.CorNewGenerics[int](func() { inB = genB.YieldRef(777) })
		ep := s.Go("epilogue", func() {
			h.Do("epilogue", "second-generator", nil, func() (interface{}, error) {
				genA.Start()
				cx.Start()
				for x1 < 0 {
					s.Sleep(time.Microsecond)
				}
				genB.StartWithVal(4242)
				for inB < 0 {
					s.Sleep(time.Microsecond)
				}
				gate = true
				for x2 < 0 {
					s.Sleep(time.Microsecond)
				}
				return nil, nil
			})
		})
		if !s.WaitUntilTimeout(ep.Done, 10*time.Minute) {
			sc.extra = append(sc.extra, Violation{Clause: "hang", Fingerprint: "second-generator-epilogue", Detail: fmt.Sprintf("generator A serving caller X, then generator B started with StartWithVal(4242): did not finish (x1=%d, B's first YieldRef got %d, x2=%d)", x1, inB, x2)})
		} else if x1 != 10 || x2 != 11 || inB != 4242 {
			sc.extra = append(sc.extra, Violation{Clause: "routing", Fingerprint: "value-of-an-unrelated-generator-misrouted", Detail: fmt.Sprintf("X asked A twice and got %d, %d (want 10, 11); in between, an unrelated generator B was started with StartWithVal(4242) and yielded 777: its first YieldRef returned %d (want 4242)", x1, x2, inB)})
		}
		sc.probes["second-generator-started-with-a-value-later"]++
	}
	// A generator written as a do-block: the coroutine DoNotation hands to its effect serves requests like any other
	// target, and DoNotation returns the effect's result
	{
		var z fpgo.CorDef[int]
		var gen *fpgo.CorDef[int]
		res, r1, r2 := -1, -1, -1
		dg := s.Go("do-generator", func() {
			h.Do("do-generator", "DoNotation", nil, func() (interface{}, error) {
				res = z.DoNotation(func(self *fpgo.CorDef[int]) int {
					gen = self
					a := self.YieldRef(10)
					b := self.YieldRef(20)
					return a*100 + b
				})
				return res, nil
			})
		})
		dc := s.Go("do-generator-caller", func() {
			for gen == nil {
				s.Sleep(time.Microsecond)
			}
			me := fpgo.CorNewGenerics[int](nil)
			h.Do("do-generator-caller", "YieldFrom x2", nil, func() (interface{}, error) {
				r1 = me.YieldFrom(gen, 1)
				r2 = me.YieldFrom(gen, 2)
				return nil, nil
			})
		})
		if !s.WaitUntilTimeout(func() bool { return dg.Done() && dc.Done() }, 10*time.Minute) {
			sc.extra = append(sc.extra, Violation{Clause: "hang", Fingerprint: "do-block-used-as-a-generator", Detail: fmt.Sprintf("a do-block whose coroutine serves two requests did not finish (answers %d, %d; result %d)", r1, r2, res)})
		} else if r1 != 10 || r2 != 20 || res != 102 {
			sc.extra = append(sc.extra, Violation{Clause: "do-notation", Fingerprint: "do-block-used-as-a-generator", Detail: fmt.Sprintf("a do-block yields 10 and 20 to a caller sending 1 and 2 and returns 100*a+b: the caller got %d, %d (want 10, 20), DoNotation returned %d (want 102)", r1, r2, res)})
		}
	}
	// the library's default Handler is a Handler like any other: an IO observed on it may run a do-block that yields from
	// a plain IO (nothing of that needs the default Handler a second time)
	{
		res, gotRes := -1, false
		dio := fpgo.MonadIONewGenerics(func() int {
			var z fpgo.CorDef[int]
			return z.DoNotation(func(self *fpgo.CorDef[int]) int { return self.YieldFromIO(fpgo.MonadIOJustGenerics(7)) + 1 })
		}).ObserveOn(fpgo.Handler.GetDefault())
		dio.Subscribe(fpgo.Subscription[int]{OnNext: func(v int) { res = v; gotRes = true }})
		if !s.WaitUntilTimeout(func() bool { return gotRes }, 10*time.Minute) || res != 8 {
			sc.extra = append(sc.extra, Violation{Clause: "yield-from-io", Fingerprint: "do-block-on-the-default-handler", Detail: fmt.Sprintf("an IO observed on the default Handler whose effect runs DoNotation + YieldFromIO(Just(7)) + 1: delivered=%v value=%d (want 8)", gotRes, res)})
		}
	}
	// YieldFromIO returns the IO's value whatever the state of the coroutine object it is called on: here the
	// target, whose effect has returned
	{
		var lop *Op
		lt := s.Go("io-on-finished-cor", func() {
			lop = h.Do("io-on-finished-cor", "YieldFromIO", 4242, func() (interface{}, error) {
				return target.YieldFromIO(fpgo.MonadIOJustGenerics[int](4242)), nil
			})
		})
		if !s.WaitUntilTimeout(lt.Done, 5*time.Minute) {
			sc.extra = append(sc.extra, Violation{Clause: "yield-from-io", Fingerprint: "never-returns-on-finished-coroutine", Detail: "YieldFromIO(Just(4242)) called on a coroutine whose effect has returned never came back"})
		} else if lop != nil && lop.Panic == "" && lop.Val != 4242 {
			sc.extra = append(sc.extra, Violation{Clause: "yield-from-io", Fingerprint: "wrong-value-on-finished-coroutine", Detail: lop.String() + ": want the IO's value 4242"})
		}
	}
	// the method-style constructor of the utility instance (interface{} element type): one exchange
	{
		var tg, cl *fpgo.CorDef[interface{}]
		var gotX, gotY interface{}
		tg = fpgo.Cor.New(func() { gotX = tg.YieldRef("y1") })
		cl = fpgo.Cor.New(func() { gotY = cl.YieldFrom(tg, "x1") })
		s.Go("smoke-target", func() { tg.Start() })
		s.Go("smoke-caller", func() { cl.Start() })
		if !s.WaitUntilTimeout(func() bool { return tg.IsDone() && cl.IsDone() }, 10*time.Minute) {
			sc.extra = append(sc.extra, Violation{Clause: "api-smoke", Fingerprint: "Cor.New-exchange-hangs", Detail: "Cor.New(): a single YieldFrom/YieldRef exchange between two coroutines did not finish"})
		} else if gotX != "x1" || gotY != "y1" {
			sc.extra = append(sc.extra, Violation{Clause: "api-smoke", Fingerprint: "Cor.New-exchange", Detail: fmt.Sprintf("Cor.New(): YieldRef got %v (want x1), YieldFrom got %v (want y1)", gotX, gotY)})
		}
	}
	// StartWithVal hands its value to the first YieldRef - also when that value is nil (interface- and pointer-typed
	// coroutines): the first YieldRef returns nil at once, the caller's request goes to the second one
	{
		var tg, cl *fpgo.CorDef[interface{}]
		var first, second, gotY interface{} = "unset", "unset", "unset"
		tg = fpgo.Cor.New(func() {
			first = tg.YieldRef("y0")
			second = tg.YieldRef("y1")
		})
		cl = fpgo.Cor.New(func() { gotY = cl.YieldFrom(tg, "x1") })
		tg.StartWithVal(nil)
		s.Go("nilval-caller", func() { cl.Start() })
		if !s.WaitUntilTimeout(func() bool { return tg.IsDone() && cl.IsDone() }, 10*time.Minute) {
			sc.extra = append(sc.extra, Violation{Clause: "start-with-val", Fingerprint: "nil-initial-value-hangs", Detail: fmt.Sprintf("StartWithVal(nil) then one YieldFrom: did not finish (first YieldRef got %v, second %v, caller got %v)", first, second, gotY)})
		} else if first != nil || second != "x1" || gotY != "y1" {
			sc.extra = append(sc.extra, Violation{Clause: "start-with-val", Fingerprint: "nil-initial-value", Detail: fmt.Sprintf("StartWithVal(nil) then one YieldFrom(x1): first YieldRef got %v (want nil), second %v (want x1), the caller got %v (want y1)", first, second, gotY)})
		}
	}
}

func (sc *c14Scenario) Check(res *simrt.Result) []Violation {
	var vs []Violation
	vs = append(vs, goroutinePanics(res)...)
	if sc.h == nil {
		return vs
	}
	vs = append(vs, opPanics(sc.h)...)
	vs = append(vs, sc.extra...)
	add := func(clause, fp, detail string) {
		vs = append(vs, Violation{Clause: clause, Fingerprint: fp, Detail: detail})
	}
	tl := fmt.Sprintf("target log (k,y,x)=%v", sc.tlog)
	if res.Reason != "done" || sc.hung {
		add("hang", "blocked-at-quiescence", "reason "+res.Reason+"; pending: "+pendingOps(sc.h)+"; "+tl)
		return dedupe(vs)
	}
	if len(vs) > 0 {
		return dedupe(vs)
	}
	for i, a := range sc.reqs {
		for _, b := range sc.reqs[i+1:] {
			if a.caller != b.caller && a.op != nil && b.op != nil && a.op.Inv < b.op.Ret && b.op.Inv < a.op.Ret {
				sc.probes["requests-of-two-callers-in-flight"]++
			}
		}
	}
	kOf := map[int][]int{}
	for _, e := range sc.tlog {
		kOf[e.x] = append(kOf[e.x], e.k)
	}
	if sc.StartVal {
		if len(sc.tlog) == 0 || sc.tlog[0].x != sc.v0 {
			add("start-with-val", "value-not-at-first-yieldref", fmt.Sprintf("StartWithVal(%d) but %s", sc.v0, tl))
		}
		delete(kOf, sc.v0)
	}
	lastK := map[int]int{}
	for _, r := range sc.reqs {
		if r.op == nil || !r.op.Returned || r.op.Panic != "" {
			continue
		}
		ks := kOf[r.x]
		switch {
		case len(ks) == 0:
			add("pairing", "request-never-taken", fmt.Sprintf("%s: the target never received %d; %s", r.op.String(), r.x, tl))
			continue
		case len(ks) > 1:
			add("pairing", "request-taken-twice", fmt.Sprintf("%s: the target received %d at YieldRefs %v; %s", r.op.String(), r.x, ks, tl))
			continue
		}
		k := ks[0]
		if got := r.op.Val.(int); got != sc.tlog[k].y {
			add("pairing", "wrong-value-routed", fmt.Sprintf("%s: request %d was taken by YieldRef #%d which yielded %d, but the caller received %d; %s", r.op.String(), r.x, k, sc.tlog[k].y, got, tl))
		}
		if pk, ok := lastK[r.caller]; ok && k < pk {
			add("pairing", "per-caller-order", fmt.Sprintf("caller %d: its later request %d was served by YieldRef #%d before an earlier one (#%d); %s", r.caller, r.x, k, pk, tl))
		}
		lastK[r.caller] = k
		delete(kOf, r.x)
	}
	for x, ks := range kOf {
		add("pairing", "invented-request", fmt.Sprintf("the target received %d at YieldRefs %v, which no caller sent; %s", x, ks, tl))
	}
	return dedupe(vs)
}
