#!/bin/sh
# usage: tools/reseed_all.sh [glob]  — regression: re-runs every stored seeded change (seeded/<id>/patch.diff) against
# the current quick check of its property (or of the sibling property named by "caught_by_property" in meta.json, for changes
# that live in another property's code) and prints CAUGHT/MISSED per change. Expected MISSED: C07c, C07i, C07r, C07v, C10r, C15w, C10w, C11w,
# C14w, C16w (do not break the property as stated / outside its histories) and C07m (pre-1.23 timer semantics, simulator limit), see DESIGN.md
V=${VERIF_DIR:-/verif}; cd $V
for d in seeded/${1:-*}; do
  [ -f $d/patch.diff ] || continue
  id=$(basename $d); p=$(python3 -c "import json;m=json.load(open(\"$d/meta.json\"));print(m.get(\"caught_by_property\") or m[\"breaks_property\"])" 2>/dev/null || echo $id | cut -c1-3)
  out=$(tools/trymutant.sh "$p" "$d/patch.diff" 2>&1)
  n=$(echo "$out" | grep -c "^  violation class")
  if [ "$n" -gt 0 ]; then echo "CAUGHT  $id  ($n classes)"; else echo "MISSED  $id  :: $(echo "$out" | tail -1 | cut -c1-160)"; fi
done
