#!/bin/sh
# usage: tools/reseed_all.sh [glob]  — regression: re-runs every stored seeded change (seeded/<id>/patch.diff) against
# the current quick check of its property and prints CAUGHT/MISSED per change (C07c and C07i are expected to be MISSED: they
# do not break C07 as stated, see DESIGN.md)
V=${VERIF_DIR:-/verif}; cd $V
for d in seeded/${1:-*}; do
  [ -f $d/patch.diff ] || continue
  id=$(basename $d); p=$(python3 -c "import json;print(json.load(open(\"$d/meta.json\"))[\"breaks_property\"])" 2>/dev/null || echo $id | cut -c1-3)
  out=$(tools/trymutant.sh "$p" "$d/patch.diff" 2>&1)
  n=$(echo "$out" | grep -c "^  violation class")
  if [ "$n" -gt 0 ]; then echo "CAUGHT  $id  ($n classes)"; else echo "MISSED  $id  :: $(echo "$out" | tail -1 | cut -c1-160)"; fi
done
