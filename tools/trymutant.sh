#!/bin/sh
# usage: tools/trymutant.sh <property> <patch> [extra simcheck args]
# Applies a patch to /repo, runs the property's quick check, reverts. For the sensitivity catalogue.
P=$1; PATCH=$2; shift 2
git -C /repo apply "$(realpath "$PATCH")" || { echo "patch does not apply"; exit 3; }
/verif/bin/simcheck run -property "$P" "$@" 2>&1 | grep -E "violation class|^simcheck: C|NONDET|tool|failed" | cut -c1-260
git -C /repo checkout -- .
