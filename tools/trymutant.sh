#!/bin/sh
# usage: tools/trymutant.sh <property> <patch> [extra simcheck args]
# Applies a patch to a scratch worktree of /repo (never to /repo itself), runs the property's
# check against it (VERIF_REPO), removes the worktree. Evidence/replays go to a scratch dir.
P=$1; PATCH=$(realpath "$2"); shift 2
WT=$(mktemp -d /tmp/mutwt-XXXXXX); OUT=$(mktemp -d /tmp/mutout-XXXXXX)
git -C /repo worktree add -q --detach "$WT" HEAD || exit 3
if ! git -C "$WT" apply "$PATCH"; then echo "patch does not apply"; git -C /repo worktree remove --force "$WT"; rm -rf "$OUT"; exit 3; fi
VERIF_REPO="$WT" VERIF_OUT_DIR="$OUT" ${VERIF_DIR:-/verif}/bin/simcheck run -property "$P" "$@" 2>&1 | grep -E "violation class|^simcheck: C|NONDET|tool|failed|watchdog" | cut -c1-220
git -C /repo worktree remove --force "$WT"; rm -rf "$OUT"
