#!/bin/sh
# Builds the framework from files on disk only (offline). Run once after a fresh restore.
set -e
V=${VERIF_DIR:-/verif}; cd $V
export GOFLAGS=-mod=mod GOPROXY=off GOSUMDB=off GOTOOLCHAIN=local CGO_ENABLED=0
mkdir -p bin evidence replays
go1.26.8 build -o bin/siminstr ./tools/siminstr
go1.26.8 build -o bin/simcheck ./cmd/simcheck
# transparency: the instrumented copy passes the repository's stable tests in pass-through mode
bin/simcheck transparency || echo "WARNING: transparency self-test failed (see above); checks are still usable"
