#!/usr/bin/env python3
"""Regenerates /verif/MANIFEST.json from the table below (keeps the file valid at all times)."""
import json, os, sys

HERE = os.path.dirname(os.path.dirname(os.path.abspath(__file__)))

TECH = "deterministic simulation with fault injection: seeded search over schedules/fault sequences of the real code (AST-instrumented copy) inside a testing/synctest bubble under a gate scheduler; history oracles / reference models; tape shrinking and exact replay"

CLAIMED = {
    "C07": dict(
        text="Seeded schedule/fault search over producers x consumers x loader/free-node goroutines of the real Buffered/ChannelQueue on a fake clock, configurations drawn per run, fair settle phase; history oracles for invented/duplicate/lost, real-time FIFO, bound, non-blocking, error necessity, timeout honesty, conservation and nothing-stranded. Evidence bounded by explored schedules.",
        note="Oracles flag only definite violations from invoke/return stamps; the nothing-stranded clause is evaluated for capacity>=1 under fair scheduling up to a bounded number of retrieval attempts; statement-granular SC interleavings; trusted: synctest fake clock, instrumenter, harness/c07_queues.go.",
        ref="DESIGN.md §5.7"),
    "C08": dict(
        text="Seeded schedule search over 1..16 producers x 1..16 consumers on ConcurrentQueue/ConcurrentStack wrapping the real LinkedListQueue (statement-level preemption inside it) or a deliberately racy harness queue; recorded histories checked with porcupine against a sequential FIFO/LIFO model plus direct duplicate/lost/invented checks.",
        note="Linearizability is decided per recorded history (<=~40 operations, porcupine timeout => inconclusive, never reported); coverage of schedules is sampled; trusted: porcupine v1.3.0, instrumenter, harness/c08_concurrent.go.",
        ref="DESIGN.md §5.8"),
    "C09": dict(
        text="Seeded schedule/fault search over the real DefaultWorkerPool + job queue + spawn loop + workers + timers on a fake clock with panicking/slow jobs and concurrent submitters within the property's configuration quantifier; oracles: rejected-never-runs, at-most-once, exactly-once by a fair virtual-time horizon, concurrency gauge, panic-handler log, error necessity, post-close error.",
        note="Exactly-once is a bounded-liveness verdict: fair round-robin settle phase, horizon 2000 time units above every configured interval; trusted: synctest fake clock, instrumenter, harness/c09_pool.go.",
        ref="DESIGN.md §5.9"),
    "C15": dict(
        text="Seeded schedule search over one closer x 1..8 users per object kind with statement-level preemption and site-targeted strategies; oracles: no goroutine/call panic, nothing left blocked at fair quiescence, post-close results. Evidence of absence bounded by the explored schedules (counts in the evidence file).",
        note="Statement-granular sequentially consistent interleavings; runtime wake-up order of several blocked receivers and select among simultaneously ready cases are deterministic but not explored; trusted: Go runtime/synctest fake clock, the instrumenter's rewrites (validated by the transparency self-test), the oracles in harness/c15_shutdown.go.",
        ref="DESIGN.md §5.15"),
}

PENDING_REASON = "check not built yet in this session (work in progress; see DESIGN.md §8a build order)"

NA = {
    "C01": "pure function of one input value (Maybe observers/monad laws): no schedule, clock, fault or shared state for a simulator to act on; deciding it is input generation against a reference, a different technique (DESIGN.md §5.1)",
    "C02": "pure arithmetic/strconv conversions of one input; no concurrency, time or I/O (DESIGN.md §5.2)",
    "C03": "pure slice/map helper functions of their arguments; the only helper with goroutines (PMap) is C16 (DESIGN.md §5.3)",
    "C04": "sequential, deterministic aliasing property over operation programs; nothing for a scheduler or fault injector to decide; its one in-repo client (interceptor list) is driven through histories in C18 (DESIGN.md §5.4)",
    "C05": "pure set-algebra functions of operand pairs (DESIGN.md §5.5)",
    "C19": "pure sorting functions of list + comparator; sort.SliceStable is deterministic (DESIGN.md §5.19)",
}

ALL = ["C%02d" % i for i in range(1, 21)]


def main():
    checks = []
    for pid in sorted(CLAIMED):
        c = CLAIMED[pid]
        checks.append({
            "property_id": pid,
            "quick_cmd": "bin/simcheck run -property %s -tier quick" % pid,
            "thorough_cmd": "bin/simcheck run -property %s -tier thorough" % pid,
            "evidence_file": "/verif/evidence/%s.json" % pid,
            "replay_cmd_template": "bin/simcheck replay {path}",
            "engine": "simcheck",
            "level_claimed": {"category": c.get("category", "exploration"), "text": c["text"], "design_ref": c["ref"]},
            "level_note": c["note"],
            "technique": c.get("technique", TECH),
        })
    na = []
    for pid in ALL:
        if pid in CLAIMED:
            continue
        na.append({"property_id": pid, "reason": NA.get(pid, PENDING_REASON)})
    m = {
        "version": 1,
        "setup_cmd": "sh /verif/tools/setup.sh",
        "hooks": {
            "guard": "verifsim",
            "enable": "no hook lives in /repo: every check copies /repo's working tree to a scratch directory and rewrites the copy with tools/siminstr (go/ast + go/types), inserting calls to verif.local/simrt (yield points, channel/lock/timer gates, simulated sync.Pool, goroutine creation); the shipped sources are untouched",
            "baseline_off_cmd": "cd /repo && GOFLAGS=-mod=mod go test -vet=off -count=1 -timeout 25m ./...",
            "source_commits": [],
            "add_only": True,
        },
        "engines": [{
            "name": "simcheck",
            "path": "/verif/cmd/simcheck",
            "serves_properties": sorted(CLAIMED),
            "kind_free_text": "deterministic simulator: tools/siminstr (AST instrumenter) + simrt (gate scheduler in a testing/synctest bubble, tape, simulated sync.Pool) + harness (scenarios, oracles, reference models, porcupine) + cmd/simcheck (build, 16 worker processes, shrink, replay, known findings, evidence)",
        }],
        "checks": checks,
        "not_applicable": na,
        "notes": "Go 1.26.8 (GOTOOLCHAIN=local) is required for testing/synctest. Exit codes: 0 held, 1 VIOLATION, 2 tool trouble (never a verdict). Known findings: /verif/known_findings.json.",
    }
    with open(os.path.join(HERE, "MANIFEST.json"), "w") as f:
        json.dump(m, f, indent=1)
        f.write("\n")


if __name__ == "__main__":
    main()
