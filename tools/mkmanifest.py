#!/usr/bin/env python3
"""Regenerates /verif/MANIFEST.json from the table below (keeps the file valid at all times)."""
import json, os, sys

HERE = os.path.dirname(os.path.dirname(os.path.abspath(__file__)))

TECH = "deterministic simulation with fault injection: seeded search over schedules/fault sequences of the real code (AST-instrumented copy) inside a testing/synctest bubble under a gate scheduler; history oracles / reference models; tape shrinking and exact replay"

CLAIMED = {
    "C06": dict(
        text="Seeded histories (1..40 operations, swarm-style operation subsets) on one LinkedListQueue through the concrete type, Queue[T] and Stack[T], stepped in lock-step against a reference deque, with the sync.Pool node allocator simulated (drop / reuse newest / reuse oldest / fresh decided by the tape); livelock detection by a yield cap. Weakest fit: apart from the allocator the property is a function of the history.",
        note="Sampling of histories, not bounded-exhaustive enumeration (which would be the stronger technique for the history part, DESIGN.md §5.6); the allocator seam is the only schedule-like nondeterminism; trusted: reference deque in harness/c06_deque.go, instrumenter's sync.Pool redirection.",
        ref="DESIGN.md §5.6"),
    "C10": dict(
        text="Seeded schedule/history search over Publish/Subscribe/Unsubscribe from 1..3 threads and from inside callbacks (self/other unsubscription, re-entrant subscription), with and without SubscribeOn(handler) and Map; per (Publish, subscription) delivery-count oracle from invoke/return stamps, subscription order, handler thread identity.",
        note="Only definite violations: deliveries to subscriptions whose (un)subscription overlaps the Publish are unconstrained (0 or 1, never 2); handler mode is judged after the handler has been drained under fair scheduling; trusted: harness/c10_publisher.go.",
        ref="DESIGN.md §5.10"),
    "C11": dict(
        text="Generated composition trees over Just/New/FlatMap checked against a reference interpreter (value, effect order) when only built, Eval'ed 0..3 times and Subscribed from 1..3 threads under every nil/non-nil ObserveOn/SubscribeOn combination (thread identity of effects and OnNext, exactly-once), plus behavioural monad-law instances.",
        note="Laziness and the laws do not depend on the schedule; the schedule-dependent clauses (routing, exactly-once under concurrent subscribers and busy handlers) are sampled; trusted: reference interpreter in harness/c11_monadio.go.",
        ref="DESIGN.md §5.11"),
    "C12": dict(
        text="Seeded schedule search over 1..16 senders posting numbered sequences to a Handler or to the actors of a spawn tree (all channel capacities), with begin/yield/end logging; oracles: exactly-once by the fair settle horizon, no overlap per mailbox, per-sender order, effect receives its own actor, parent/child registry, nothing runs after Close.",
        note="Actor ids are time.Now(): the harness advances the fake clock by 1ns before each actor creation; trusted: harness/c12_mailbox.go.",
        ref="DESIGN.md §5.12"),
    "C13": dict(
        text="Seeded schedule/timing search over 1..6 askers x one serial actor with per-request reply policies (now / inline or asynchronous virtual latency / never) around the timeout on the fake clock; oracles decided from recorded virtual instants: correlation, in-time => reply, timeout => zero value + ErrActorAskTimeout after >= timeout, never => timeout, late => timeout (stall-free runs), late Reply neither panics nor blocks, actor still serves.",
        note="The in-time rule uses the instant Reply returned (sound under injected stalls); the converse rule only in stall-free runs; equal instants accept both outcomes; trusted: synctest fake clock, harness/c13_ask.go.",
        ref="DESIGN.md §5.13"),
    "C14": dict(
        text="Seeded schedule search over 1..8 caller coroutines (started coroutines and DoNotation effects, optional YieldFromIO) and a generator target with exactly as many YieldRefs as requests; pairing/routing oracle over the logs of both sides, StartWithVal, DoNotation/YieldFromIO results, IsStarted/IsDone, nobody blocked at fair quiescence.",
        note="Side condition of the property (the target has YieldRefs left for every request) is built into the scenario; trusted: harness/c14_cor.go.",
        ref="DESIGN.md §5.14"),
    "C16": dict(
        text="Seeded schedule search over PMap's producer/worker/closer goroutines with lists of length 0..16, every FixedPool class, both order modes and data-dependent virtual durations of f (including later-elements-finish-first); oracles: result == Map / permutation, f applied exactly once per element, gauge <= min(FixedPool,len), returns after the last application, terminates; in a third of the runs further PMap calls (empty and non-empty lists, sequentially before and concurrently beside the main call) share the caller's option object, each call judged on its own.",
        note="Trusted: harness/c16_pmap.go; termination is a bounded-liveness verdict under fair scheduling.",
        ref="DESIGN.md §5.16"),
    "C17": dict(
        text="Seeded definitions (constructor x template x PathParam x body x DefaultHeader) x injected fault (serializer, transport, torn/empty/malformed body, nil deserializer result, missing file) x 0..6 evaluations via Eval or Subscribe, over the real net/http client with a stub RoundTripper; reference request builder for method/URL/header/body; lazy (also when the API's MonadIO is composed with FlatMap), one request per evaluation, header copy, decoding, failure => Err never panic.",
        note="Sequential property: the simulation contributes the transport/body/serializer seams, fault injection, replay and shrinking; Go map iteration order (multipart part order, pre-fix path-parameter substitution) cannot be seeded, so multipart bodies are compared as parsed fields and replays of map-order-dependent failures are retried; trusted: harness/c17_api.go.",
        ref="DESIGN.md §5.17"),
    "C18": dict(
        category="fault_enumeration",
        text="Seeded histories over Add/Remove/ClearInterceptor, SetHTTPClient and requests of every verb (and via SimpleAPI) with 0..6 interceptor objects and 1..3 clients; at every request point every position of a failing interceptor is enumerated; list-model oracle: chain = model list in order, each once, then transport once; header changes reach the transport and nothing but what the registered interceptors wrote into this request does (per-interceptor value counts; APIs with and without a default header); error aborts and surfaces; no re-entrancy.",
        note="Histories are sampled, failing positions are enumerated exhaustively per request point; trusted: harness/c18_interceptors.go.",
        ref="DESIGN.md §5.18"),
    "C20": dict(
        text="CurryDef clause (the only one with a schedule in it): seeded schedule search over 1..6 threads calling Call with unique argument blocks and MarkDone from inside fn or from another thread; prefix-chain oracle over the recorded invocations (whole blocks, real-time order, at most/exactly one invocation per Call, nothing after MarkDone, Result). The pure clauses (Compose/Pipe incl. regrouping and caller-owned slices, CurryParamN/MakeVariadic* adapters, Trampoline, MatchFor/Either first-match over pattern permutations x probe values, NewCompData) ride on the same scenario tape as seeded input generation against small reference implementations (harness/c20_pure.go), with composed functions also evaluated from two simulated threads.",
        note="For the pure clauses the simulator decides nothing: that part is seeded input generation (a third of the runs), stated as such (DESIGN.md §5.20); expectations for typed nil pointers against sum-type patterns are deliberately not asserted; trusted: harness/c20_curry.go, harness/c20_pure.go (reference compose, acceptance table of the five pattern kinds).",
        ref="DESIGN.md §5.20"),
    "C07": dict(
        text="Seeded schedule/fault search over producers x consumers x loader/free-node goroutines of the real Buffered/ChannelQueue on a fake clock, configurations drawn per run, fair settle phase; history oracles for invented/duplicate/lost, real-time FIFO, bound, non-blocking, error necessity, timeout honesty, conservation and nothing-stranded; every recorded history (capacity>=1, <=80 calls) is additionally checked for linearizability with porcupine against a nondeterministic reference queue (FIFO sequence split into a channel part <= capacity and an overflow part <= buffer maximum, loader moves as internal steps). Evidence bounded by explored schedules.",
        note="Oracles flag only definite violations from invoke/return stamps; the nothing-stranded clause is evaluated for capacity>=1 under fair scheduling up to a bounded number of retrieval attempts; statement-granular SC interleavings; porcupine Unknown (timeout) is inconclusive and never reported, Count and unbuffered channels are outside the reference model; trusted: porcupine v1.3.0, synctest fake clock, instrumenter, harness/c07_queues.go.",
        ref="DESIGN.md §5.7"),
    "C08": dict(
        text="Seeded schedule search over 1..16 producers x 1..16 consumers on ConcurrentQueue/ConcurrentStack wrapping the real LinkedListQueue (statement-level preemption inside it) or a deliberately racy harness queue; recorded histories checked with porcupine against a sequential FIFO/LIFO model plus direct duplicate/lost/invented checks.",
        note="Linearizability is decided per recorded history (<=~40 operations, porcupine timeout => inconclusive, never reported); coverage of schedules is sampled; trusted: porcupine v1.3.0, instrumenter, harness/c08_concurrent.go.",
        ref="DESIGN.md §5.8"),
    "C09": dict(
        text="Seeded schedule/fault search over the real DefaultWorkerPool + job queue + spawn loop + workers + timers on a fake clock with panicking/slow jobs and concurrent submitters within the property's configuration quantifier; oracles: rejected-never-runs, at-most-once, exactly-once by a fair virtual-time horizon, concurrency gauge, panic-handler log (also after SetPanicHandler replaced the handler while workers exist), error necessity, post-close error.",
        note="Exactly-once is a bounded-liveness verdict: fair round-robin settle phase, horizon 2000 time units above every configured interval; trusted: synctest fake clock, instrumenter, harness/c09_pool.go.",
        ref="DESIGN.md §5.9"),
    "C15": dict(
        text="Seeded schedule search over one closer x 1..8 users per object kind with statement-level preemption and site-targeted strategies; oracles: no goroutine/call panic, nothing left blocked at fair quiescence, post-close results. Evidence of absence bounded by the explored schedules (counts in the evidence file).",
        note="Statement-granular sequentially consistent interleavings; runtime wake-up order of several blocked receivers and select among simultaneously ready cases are deterministic but not explored; trusted: Go runtime/synctest fake clock, the instrumenter's rewrites (validated by the transparency self-test), the oracles in harness/c15_shutdown.go.",
        ref="DESIGN.md §5.15"),
}

# widenings of the last waves (appended to the level text of the property)
EXTRA = {
    "C07": " Also: node-hook sizes MaxInt/negative, and Offer/Poll/Count must take zero virtual time in stall-free runs (they may not wait behind a lock holder that sleeps).",
    "C08": " The wrapped structure may also be bounded (rejections are part of the sequential model), hold pointer elements one of which is nil, or be cleared by its owner between phases.",
    "C09": " Also: batch size MaxInt, timeouts <= 0, nil jobs in front of real ones; a timed call must return within timeout + retry interval in stall-free runs.",
    "C10": " Also: callbacks bound through the returned handle, an unsubscribed Subscription value subscribed again.",
    "C11": " Also probes for aliasing/re-entrancy (FlatMap returning its source, Subscribe from inside OnNext, handlers closed by the step running on them).",
    "C12": " Also: mailbox closed from inside (by a posted function / by the effect), the default Handler asked for again after Close.",
    "C14": " Also: never-started coroutine objects as caller handles, a generator written as a do-block.",
    "C15": " Also: pool closed by one of its jobs or by its panic handler.",
    "C16": " Also: pool sizes MaxInt/MinInt, duplicate elements, interface-typed results with nils, f calling PMap itself (rarely with a 1100-element list).",
    "C17": " Also: typed and odd path-parameter values and keys, query strings in the template, a request-body reader failing half-way, network faults that hit the first evaluation only.",
    "C18": " Also: one caller-owned *http.Request sent several times in a row, one http.Client handed to two SimpleHTTP objects.",
    "C20": " Pure part also: equality patterns holding a pointer, the empty string against a regex that accepts it, functions returning nothing inside Compose/Pipe.",
}

PENDING_REASON = "check not built yet in this session (work in progress; see DESIGN.md §8a build order)"

NA = {
    "C01": "pure function of one input value (Maybe observers/monad laws): no schedule, clock, fault or shared state for a simulator to act on; deciding it is input generation against a reference, a different technique (DESIGN.md §5.1)",
    "C02": "pure arithmetic/strconv conversions of one input; no concurrency, time or I/O (DESIGN.md §5.2)",
    "C03": "pure slice/map helper functions of their arguments; the only helper with goroutines (PMap) is C16 (DESIGN.md §5.3)",
    "C04": "sequential, deterministic aliasing property over operation programs; nothing for a scheduler or fault injector to decide; its one in-repo client (interceptor list) is driven through histories in C18 (DESIGN.md §5.4)",
    "C05": "pure set-algebra functions of operand pairs (DESIGN.md §5.5)",
    "C19": "pure sorting functions of list + comparator; sort.SliceStable is deterministic (DESIGN.md §5.19)",
}

ALL = ["C%02d" % i for i in range(1, 21)]


def main():
    checks = []
    for pid in sorted(CLAIMED):
        c = CLAIMED[pid]
        checks.append({
            "property_id": pid,
            "quick_cmd": "bin/simcheck run -property %s -tier quick" % pid,
            "thorough_cmd": "bin/simcheck run -property %s -tier thorough" % pid,
            "evidence_file": "/verif/evidence/%s.json" % pid,
            "replay_cmd_template": "bin/simcheck replay {path}",
            "engine": "simcheck",
            "level_claimed": {"category": c.get("category", "exploration"), "text": c["text"] + EXTRA.get(pid, ""), "design_ref": c["ref"]},
            "level_note": c["note"],
            "technique": c.get("technique", TECH),
        })
    na = []
    for pid in ALL:
        if pid in CLAIMED:
            continue
        na.append({"property_id": pid, "reason": NA.get(pid, PENDING_REASON)})
    m = {
        "version": 1,
        "setup_cmd": "sh /verif/tools/setup.sh",
        "hooks": {
            "guard": "verifsim",
            "enable": "no hook lives in /repo: every check copies /repo's working tree to a scratch directory and rewrites the copy with tools/siminstr (go/ast + go/types), inserting calls to verif.local/simrt (yield points, channel/lock/timer gates, simulated sync.Pool, goroutine creation); the shipped sources are untouched",
            "baseline_off_cmd": "cd /repo && GOFLAGS=-mod=mod go test -vet=off -count=1 -timeout 25m ./...",
            "source_commits": [],
            "add_only": True,
        },
        "engines": [{
            "name": "simcheck",
            "path": "/verif/cmd/simcheck",
            "serves_properties": sorted(CLAIMED),
            "kind_free_text": "deterministic simulator: tools/siminstr (AST instrumenter) + simrt (gate scheduler in a testing/synctest bubble, tape, simulated sync.Pool) + harness (scenarios, oracles, reference models, porcupine) + cmd/simcheck (build, 16 worker processes, shrink, replay, known findings, evidence)",
        }],
        "checks": checks,
        "not_applicable": na,
        "notes": "Go 1.26.8 (GOTOOLCHAIN=local) is required for testing/synctest. Exit codes: 0 held, 1 VIOLATION, 2 tool trouble (never a verdict). Known findings: /verif/known_findings.json.",
    }
    with open(os.path.join(HERE, "MANIFEST.json"), "w") as f:
        json.dump(m, f, indent=1)
        f.write("\n")


if __name__ == "__main__":
    main()
