#!/bin/sh
# usage: tools/seeded.sh <seeded-id> <property> <src_out_dir>
# Confirms a seeded change in a scratch worktree (applies, builds, stable suite passes, demo fails with /
# passes without), stores it under ${VERIF_DIR:-/verif}/seeded/<id>/ and runs the property's quick check against it.
ID=$1; P=$2; SRC=$3
export GOFLAGS=-mod=mod GOPROXY=off GOSUMDB=off
D=${VERIF_DIR:-/verif}/seeded/$ID; mkdir -p $D
cp $SRC/patch.diff $D/patch.diff
for f in $SRC/*_test.go $SRC/*.go; do [ -f "$f" ] && cp "$f" $D/; done
[ -f $SRC/NOTES.md ] && cp $SRC/NOTES.md $D/NOTES.md
WT=$(mktemp -d /tmp/seedwt-XXXXXX)
git -C /repo worktree add -q --detach "$WT" HEAD || exit 3
cleanup() { git -C /repo worktree remove --force "$WT"; }
rundemo() { # $1 = label
  res=""
  for f in $D/*_test.go; do
    pkg=$(grep -m1 '^package ' $f | awk '{print $2}')
    case $pkg in fpgo|fpgo_test) dir=.;; network|network_test) dir=network;; worker|worker_test) dir=worker;; *) dir=.;; esac
    cp $f $WT/$dir/zz_seeded_demo_test.go
    names=$(grep -o '^func Test[A-Za-z0-9_]*' $f | sed 's/func //' | tr '\n' '|' | sed 's/|$//')
    if (cd $WT && timeout 300 go test -vet=off -count=1 -run "^($names)\$" ./$dir >/tmp/seed-demo.log 2>&1); then res="$res pass"; else res="$res FAIL"; fi
    rm -f $WT/$dir/zz_seeded_demo_test.go
  done
  echo "demo[$1]:$res"
}
A=$(rundemo without-patch)
if ! git -C "$WT" apply $D/patch.diff; then echo "PATCH DOES NOT APPLY"; cleanup; exit 3; fi
B0="build: $(cd $WT && go build ./... 2>&1 | head -3 | tr '\n' ' ')"
RUN='^(TestActorAsk|TestActorCommon|TestCast|TestChannelQueue|TestClone|TestCompType|TestCompose|TestCorDoNotation|TestCorYield|TestCurry|TestFPFunctions|TestFilter|TestFilterForInterface|TestFlatMap|TestFromArrayMapReduce|TestFromArrayMapReduceForInterface|TestIsPresent|TestLet|TestMonadIO|TestOr|TestPatternMatching|TestPublisher|TestScheduleWithTimeout|TestSetForInterfaceSetOperation|TestSetSetOperation|TestSimpleAPI|TestSimpleAPIMultipart|TestSort|TestSortDescriptor|TestSortForInterface|TestStreamForInterfaceSetOperation|TestStreamSetForInterfaceSetOperation|TestStreamSetOperation|TestStreamSetSetOperation|TestType|TestVariadic|TestWorkerPool)$'
S="suite: FAIL"
for i in 1 2 3 4 5 6; do if (cd $WT && go test -vet=off -count=1 -run "$RUN" ./... >/tmp/seed-suite.log 2>&1); then S="suite: pass (attempt $i)"; break; fi; done
B=$(rundemo with-patch)
echo "$ID [$P] $B0 | $S | $A | $B"
OUT=$(mktemp -d /tmp/mutout-XXXXXX)
C=$(VERIF_REPO="$WT" VERIF_OUT_DIR="$OUT" ${VERIF_DIR:-/verif}/bin/simcheck run -property "$P" 2>&1 | grep -E "violation class|^simcheck: C|NONDET|tool error|watchdog" | cut -c1-200)
echo "$C"
n=$(echo "$C" | grep -c "^  violation class")
echo "{\"id\":\"$ID\",\"property\":\"$P\",\"confirmed\":\"$B0 | $S | $A | $B\",\"quick_check_violation_classes\":$n}" > $D/result.json
rm -rf "$OUT"; cleanup
