#!/bin/sh
# usage: tools/seeded_batch.sh <suffix>   e.g. "e" -> processes /tmp/mut/C??e/_out for every claimed property
V=${VERIF_DIR:-/verif}; cd $V
for p in C06 C07 C08 C09 C10 C11 C12 C13 C14 C15 C16 C17 C18 C20; do
  id=$p$1
  [ -f /tmp/mut/$id/_out/patch.diff ] || { echo "PENDING $id"; continue; }
  [ -f seeded/$id/meta.json ] && { echo "DONE    $id"; continue; }
  out=$(tools/seeded.sh $id $p /tmp/mut/$id/_out 2>&1)
  conf=$(echo "$out" | head -1 | cut -c1-160)
  n=$(echo "$out" | grep -c "^  violation class")
  if [ "$n" -gt 0 ]; then echo "CAUGHT  $conf :: $(echo "$out" | grep "^  violation class" | head -3 | sed 's/.*violation class //' | tr '\n' ';' | cut -c1-160)"; else echo "MISSED  $conf :: $(echo "$out" | tail -1 | cut -c1-120)"; fi
done
