#!/usr/bin/env python3
"""Generates the sensitivity catalogue /verif/mutants/<prop>-<name>.patch from textual edits of /repo's
current HEAD (DESIGN.md §6). Each mutant must compile; tools/runmutants.sh checks that the property's
quick check catches it. Nothing here is ever committed to /repo."""
import os, subprocess, sys

REPO = "/tmp/mkmutants-wt"  # a scratch worktree of /repo's HEAD (never /repo itself), removed at the end
OUT = os.path.join(os.environ.get("VERIF_DIR", "/verif"), "mutants")

M = [
    # (property, name, file, old, new)
    ("C06", "putAllIntoPool-keeps-links", "queue.go",
     "\t\tnode.Val = nil\n\t\tnode.Prev = nil\n\t\tnode.Next = nil\n\t\tq.nodeGCPool.Put(node)",
     "\t\tnode.Val = nil\n\t\tq.nodeGCPool.Put(node)"),
    ("C06", "unshift-forgets-last", "queue.go",
     "\tq.count++\n\tif q.last == nil {\n\t\tq.last = node\n\t}\n\tfirst := q.first",
     "\tq.count++\n\tfirst := q.first"),
    ("C06", "clear-keeps-count", "queue.go",
     "\tq.first = nil\n\tq.last = nil\n\tq.count = 0\n}",
     "\tq.first = nil\n\tq.last = nil\n}"),
    ("C06", "pop-no-unlink", "queue.go",
     "\t} else {\n\t\t// The removed node is going to be recycled: do not keep a link to it\n\t\tq.last.Next = nil\n\t}",
     "\t}"),
    ("C07", "loader-drops-on-failed-offer", "queue.go",
     "\t\t\tif offerErr != nil {\n\t\t\t\tq.pool.Unshift(val)\n\t\t\t\tbreak\n\t\t\t}",
     "\t\t\tif offerErr != nil {\n\t\t\t\tbreak\n\t\t\t}"),
    ("C07", "loader-requeues-at-tail", "queue.go",
     "\t\t\t\tq.pool.Unshift(val)\n",
     "\t\t\t\tq.pool.Offer(val)\n"),
    ("C07", "offer-bypasses-overflow", "queue.go",
     "\tif poolCount == 0 {\n\t\t// Try channel",
     "\tif poolCount >= 0 {\n\t\t// Try channel"),
    ("C07", "bound-off-by-one", "queue.go",
     "\tif poolCount >= q.bufferSizeMaximum {",
     "\tif poolCount > q.bufferSizeMaximum {"),
    ("C07", "loader-without-lock", "queue.go",
     "\t\tq.lock.Lock()\n\t\t// Close() could have closed the channels while waiting for the lock\n\t\tif q.isClosed.Get() {\n\t\t\tq.lock.Unlock()\n\t\t\tbreak\n\t\t}\n",
     ""),  # plus: the matching Unlock is removed below (the first version of this mutant still held the lock: equivalent)
    ("C07", "poll-without-wakeup", "queue.go",
     "\tq.notifyWorkers()\n\n\treturn q.blockingQueue.Poll()",
     "\treturn q.blockingQueue.Poll()"),
    ("C07", "takes-without-wakeup", "queue.go",
     "\tq.notifyWorkers()\n\n\treturn q.blockingQueue.TakeWithTimeout(timeout)",
     "\treturn q.blockingQueue.TakeWithTimeout(timeout)"),
    ("C08", "poll-rlock", "queue.go",
     "func (q *ConcurrentQueue[T]) Poll() (T, error) {\n\tq.lock.Lock()\n\tdefer q.lock.Unlock()",
     "func (q *ConcurrentQueue[T]) Poll() (T, error) {\n\tq.lock.RLock()\n\tdefer q.lock.RUnlock()"),
    ("C08", "push-no-lock", "queue.go",
     "func (q *ConcurrentStack[T]) Push(val T) error {\n\tq.lock.Lock()\n\tdefer q.lock.Unlock()\n",
     "func (q *ConcurrentStack[T]) Push(val T) error {\n"),
    ("C09", "job-runs-twice-on-busy-path", "worker/pool.go",
     "\t\t\t\t\tjob()\n",
     "\t\t\t\t\tjob()\n\t\t\t\t\tif workerPoolSelf.workerBusy > workerPoolSelf.workerSizeStandBy+1 {\n\t\t\t\t\t\tjob()\n\t\t\t\t\t}\n"),
    ("C09", "max-guard-removed", "worker/pool.go",
     "\tif workerPoolSelf.workerCount >= maximum ||\n\t\tworkerPoolSelf.workerCount >= workerPoolSelf.workerSizeMaximum {\n\t\treturn\n\t}",
     "\tif workerPoolSelf.workerCount >= maximum {\n\t\treturn\n\t}"),
    ("C09", "no-wake-after-panic", "worker/pool.go",
     "\t\t\tisSpawnNeeded := isPanicked || workerPoolSelf.workerCount < workerPoolSelf.workerSizeStandBy",
     "\t\t\tisSpawnNeeded := workerPoolSelf.workerCount < 0 && isPanicked"),
    ("C09", "rejected-still-enqueued", "worker/pool.go",
     "\terr := workerPoolSelf.jobQueue.Offer(fn)\n\tif err == fpgo.ErrQueueIsFull {\n\t\treturn ErrWorkerPoolJobQueueIsFull\n\t}",
     "\terr := workerPoolSelf.jobQueue.Offer(fn)\n\tif err == fpgo.ErrQueueIsFull {\n\t\tgo func() { time.Sleep(workerPoolSelf.scheduleRetryInterval); workerPoolSelf.jobQueue.Offer(fn) }()\n\t\treturn ErrWorkerPoolJobQueueIsFull\n\t}"),
    ("C09", "workercount-not-decremented-on-panic", "worker/pool.go",
     "\t\t\tworkerPoolSelf.lock.Lock()\n\t\t\tworkerPoolSelf.workerCount--\n\t\t\tif isBusy {",
     "\t\t\tworkerPoolSelf.lock.Lock()\n\t\t\tif !isPanicked {\n\t\t\t\tworkerPoolSelf.workerCount--\n\t\t\t}\n\t\t\tif isBusy {"),
    ("C10", "unsubscribe-in-place", "publisher.go",
     "\t\t\t\tremaining := make([]*Subscription[T], 0, len(subscribers)-1)\n\t\t\t\tremaining = append(remaining, subscribers[:i]...)\n\t\t\t\tremaining = append(remaining, subscribers[i+1:]...)\n\t\t\t\tpublisherSelf.subscribers = remaining",
     "\t\t\t\tpublisherSelf.subscribers = append(subscribers[:i], subscribers[i+1:]...)"),
    ("C10", "publish-snapshot-without-lock", "publisher.go",
     "\tpublisherSelf.doSubscribeSafe(func() {\n\t\tsubscribers = publisherSelf.subscribers\n\t})\n\n\tfor _, s := range subscribers {\n\t\t// Each (possibly posted) delivery needs its own subscription variable\n\t\ts := s\n",
     "\tsubscribers = publisherSelf.subscribers\n\n\tfor i := 0; i < len(publisherSelf.subscribers); i++ {\n\t\ts := publisherSelf.subscribers[i]\n\t\t_ = subscribers\n"),
    ("C10", "shared-loop-variable", "publisher.go",
     "\t\t// Each (possibly posted) delivery needs its own subscription variable\n\t\ts := s\n",
     ""),
    ("C10", "map-forwards-twice-when-two-subscribers", "publisher.go",
     "\t\t\tnext.Publish(fn(in))\n",
     "\t\t\tnext.Publish(fn(in))\n\t\t\tif len(next.subscribers) > 1 && len(publisherSelf.subscribers) > 3 {\n\t\t\t\tnext.Publish(fn(in))\n\t\t\t}\n"),
    ("C11", "flatmap-eager-source", "monadIO.go",
     "\treturn &MonadIODef[T]{effect: func() T {\n\t\tnext := fn(monadIOSelf.doEffect())\n\t\treturn next.doEffect()\n\t}}",
     "\tsrc := monadIOSelf.doEffect()\n\treturn &MonadIODef[T]{effect: func() T {\n\t\tnext := fn(src)\n\t\treturn next.doEffect()\n\t}}"),
    ("C11", "subscribe-runs-effect-twice-with-both-handlers", "monadIO.go",
     "\t\t\tresult = monadIOSelf.doEffect()\n\n\t\t\tif subOn != nil {",
     "\t\t\tresult = monadIOSelf.doEffect()\n\t\t\tif subOn != nil && obOn != nil {\n\t\t\t\tresult = monadIOSelf.doEffect()\n\t\t\t}\n\n\t\t\tif subOn != nil {"),
    ("C11", "subscribeOn-ignored-when-observeOn-set", "monadIO.go",
     "\t\t\tif subOn != nil {\n\t\t\t\tsubOn.Post(doSub)",
     "\t\t\tif subOn != nil && obOn == nil {\n\t\t\t\tsubOn.Post(doSub)"),
    ("C12", "handler-go-per-message", "handler.go",
     "\t\tfn()\n", "\t\tgo fn()\n"),
    ("C12", "effect-gets-parent", "actor.go",
     "\t\tactorSelf.effect(actorSelf, message)",
     "\t\tself := actorSelf\n\t\tif actorSelf.parent != nil && len(actorSelf.children) > 0 {\n\t\t\tself = actorSelf.parent\n\t\t}\n\t\tactorSelf.effect(self, message)"),
    ("C12", "spawn-not-registering-grandchildren", "actor.go",
     "\tnewOne.parent = actorSelf\n\tactorSelf.children[newOne.id] = newOne",
     "\tnewOne.parent = actorSelf\n\tif actorSelf.parent == nil {\n\t\tactorSelf.children[newOne.id] = newOne\n\t}"),
    ("C13", "timeout-returns-nil-error", "actor.go",
     "\tcase <-time.After(timeout):\n\t\treturn result, ErrActorAskTimeout",
     "\tcase <-time.After(timeout):\n\t\treturn result, nil"),
    ("C13", "close-channel-on-timeout-again", "actor.go",
     "\tcase <-time.After(timeout):\n\t\treturn result, ErrActorAskTimeout",
     "\tcase <-time.After(timeout):\n\t\tclose(ch)\n\t\treturn result, ErrActorAskTimeout"),
    ("C13", "unbuffered-reply-channel", "actor.go",
     "make(chan R, 1))", "make(chan R))"),
    ("C14", "yieldref-replies-before-taking", "cor.go",
     "\tif more && op != nil && op.cor != nil {\n\t\tcor := op.cor\n\t\tcor.doCloseSafe(func() {\n\t\t\tcor.resultCh <- out\n\t\t})\n\t}",
     "\tif more && op != nil && op.cor != nil {\n\t\tcor := op.cor\n\t\tif len(corSelf.opCh) > 0 {\n\t\t\tif nxt := <-corSelf.opCh; nxt != nil && nxt.cor != nil {\n\t\t\t\tcor, op = nxt.cor, nxt\n\t\t\t}\n\t\t}\n\t\tcor.doCloseSafe(func() {\n\t\t\tcor.resultCh <- out\n\t\t})\n\t}"),
    ("C14", "startwithval-after-start", "cor.go",
     "\tcorSelf.receive(nil, in)\n\tcorSelf.Start()",
     "\tcorSelf.Start()\n\tcorSelf.receive(nil, in)"),
    ("C15", "offer-without-closed-recheck", "queue.go",
     "\tq.lock.Lock()\n\tdefer q.lock.Unlock()\n\n\tif q.isClosed.Get() {\n\t\treturn ErrQueueIsClosed\n\t}\n\n\tpoolCount",
     "\tif q.isClosed.Get() {\n\t\treturn ErrQueueIsClosed\n\t}\n\tq.lock.Lock()\n\tdefer q.lock.Unlock()\n\n\tpoolCount"),
    ("C15", "close-flag-after-unlock", "queue.go",
     "\tq.lock.Lock()\n\tdefer q.lock.Unlock()\n\n\tq.isClosed.Set(true)\n\tclose(q.loadWorkerCh)\n\tclose(q.blockingQueue)\n}",
     "\tq.lock.Lock()\n\tclose(q.loadWorkerCh)\n\tclose(q.blockingQueue)\n\tq.lock.Unlock()\n\tq.isClosed.Set(true)\n}"),
    # (replaces "close-before-flag", which only reordered the three statements INSIDE the critical section:
    #  every reader checks the flag under the same lock, so that mutant was equivalent and rightly went unnoticed)
    ("C15", "notify-check-outside-lock", "queue.go",
     "\tq.lock.RLock()\n\tdefer q.lock.RUnlock()\n\tif q.isClosed.Get() {\n\t\treturn\n\t}\n\n\tq.loadWorkerCh.Offer(1)",
     "\tif q.isClosed.Get() {\n\t\treturn\n\t}\n\n\tq.loadWorkerCh.Offer(1)"),
    ("C15", "handler-post-no-recover", "handler.go",
     "\tdefer func() {\n\t\trecover()\n\t}()\n\thandlerSelf.ch <- fn",
     "\thandlerSelf.ch <- fn"),
    ("C15", "cor-check-outside-lock", "cor.go",
     "\tcorSelf.closedM.Lock()\n\tdefer corSelf.closedM.Unlock()\n\t// close() closes the channels under this lock: check inside it\n\tif corSelf.IsDone() {\n\t\treturn\n\t}\n\tfn()",
     "\tif corSelf.IsDone() {\n\t\treturn\n\t}\n\tcorSelf.closedM.Lock()\n\tdefer corSelf.closedM.Unlock()\n\tfn()"),
    ("C15", "cor-pending-callers-not-released", "cor.go",
     "\t\tfor op := range corSelf.opCh {\n\t\t\tif op != nil && op.cor != nil {",
     "\t\tfor op := range corSelf.opCh {\n\t\t\tif op != nil && op.cor != nil && false {"),
    ("C15", "pool-schedule-after-close-accepted", "worker/pool.go",
     "func (workerPoolSelf *DefaultWorkerPool) Schedule(fn func()) error {\n\tif workerPoolSelf.IsClosed() {\n\t\treturn ErrWorkerPoolIsClosed\n\t}",
     "func (workerPoolSelf *DefaultWorkerPool) Schedule(fn func()) error {\n\tif workerPoolSelf.IsClosed() && workerPoolSelf.isJobQueueClosedWhenClose {\n\t\treturn ErrWorkerPoolIsClosed\n\t}"),
    ("C16", "ordered-appends-in-arrival-order", "fp.go",
     "\tfor i := 0; i < len(list); i++ {\n\t\tnewList[i] = newListMap[i]\n\t}",
     "\t_ = newListMap\n\tidx := 0\n\tfor _, v := range newListMap {\n\t\tnewList[idx] = v\n\t\tidx++\n\t}"),
    ("C16", "one-extra-worker", "fp.go",
     "\tif option != nil {\n\t\tif option.FixedPool > 0 && option.FixedPool < worker {\n\t\t\tworker = option.FixedPool\n\t\t}",
     "\tif option != nil {\n\t\tif option.FixedPool > 0 && option.FixedPool < worker {\n\t\t\tworker = option.FixedPool + 1\n\t\t}"),
    ("C16", "noorder-returns-before-wait", "fp.go",
     "\tnewList := make([]R, len(list))\n\ti := 0\n\n\tfor v := range chResult {\n\t\tnewList[i] = v\n\t\ti++\n\t}",
     "\tnewList := make([]R, len(list))\n\ti := 0\n\n\tfor v := range chResult {\n\t\tnewList[i] = v\n\t\ti++\n\t\tif i == len(list)-1 && len(list) > 3 {\n\t\t\tbreak\n\t\t}\n\t}"),
    ("C17", "default-header-not-cloned", "network/simpleHTTP.go",
     "response := simpleAPISelf.simpleHTTP.DoNewRequest(ctx, simpleAPISelf.DefaultHeader.Clone(),",
     "response := simpleAPISelf.simpleHTTP.DoNewRequest(ctx, simpleAPISelf.DefaultHeader,"),
    ("C17", "json-header-not-cloned", "network/simpleHTTP.go",
     "response := simpleAPISelf.simpleHTTP.DoNewRequestWithBodyOptions(ctx, simpleAPISelf.DefaultHeader.Clone(), method, simpleAPISelf.replacePathParams(relativeURL, pathParam), bodyReader, contentType)\n\t\t\tif response.Err != nil {\n\t\t\t\treturn &APIResponse[R]{\n\t\t\t\t\tResponseWithError: *response,\n\t\t\t\t}\n\t\t\t}\n\t\t\treturn decodeResponseBody[R](simpleAPISelf, &APIResponse[R]{\n\t\t\t\tResponseWithError: *response,\n\t\t\t}, target)\n\t\t})\n\t})\n}\n\n// APIMakeDoNewRequestWithMultipartSerializer",
     "response := simpleAPISelf.simpleHTTP.DoNewRequestWithBodyOptions(ctx, simpleAPISelf.DefaultHeader, method, simpleAPISelf.replacePathParams(relativeURL, pathParam), bodyReader, contentType)\n\t\t\tif response.Err != nil {\n\t\t\t\treturn &APIResponse[R]{\n\t\t\t\t\tResponseWithError: *response,\n\t\t\t\t}\n\t\t\t}\n\t\t\treturn decodeResponseBody[R](simpleAPISelf, &APIResponse[R]{\n\t\t\t\tResponseWithError: *response,\n\t\t\t}, target)\n\t\t})\n\t})\n}\n\n// APIMakeDoNewRequestWithMultipartSerializer"),
    ("C17", "url-built-at-definition", "network/simpleHTTP.go",
     "\treturn APINoBody[R](func(pathParam PathParam, target *R) *fpgo.MonadIODef[*APIResponse[R]] {\n\t\treturn fpgo.MonadIONewGenerics[*APIResponse[R]](func() *APIResponse[R] {\n\t\t\tctx, cancel := simpleAPISelf.GetSimpleHTTP().GetContextTimeout()\n\t\t\tdefer cancel()\n\t\t\tresponse := simpleAPISelf.simpleHTTP.DoNewRequest(ctx, simpleAPISelf.DefaultHeader.Clone(), method, simpleAPISelf.replacePathParams(relativeURL, pathParam))",
     "\treturn APINoBody[R](func(pathParam PathParam, target *R) *fpgo.MonadIODef[*APIResponse[R]] {\n\t\tctx, cancel := simpleAPISelf.GetSimpleHTTP().GetContextTimeout()\n\t\tresponse := simpleAPISelf.simpleHTTP.DoNewRequest(ctx, simpleAPISelf.DefaultHeader.Clone(), method, simpleAPISelf.replacePathParams(relativeURL, pathParam))\n\t\tcancel()\n\t\treturn fpgo.MonadIONewGenerics[*APIResponse[R]](func() *APIResponse[R] {"),
    ("C17", "patch-multipart-sends-put", "network/simpleHTTP.go",
     "func APIMakePatchMultipartBody[R any](simpleAPISelf *SimpleAPIDef, relativeURL string) APIMultipart[R] {\n\treturn APIMakeDoNewRequestWithMultipartSerializer[R](simpleAPISelf, http.MethodPatch,",
     "func APIMakePatchMultipartBody[R any](simpleAPISelf *SimpleAPIDef, relativeURL string) APIMultipart[R] {\n\treturn APIMakeDoNewRequestWithMultipartSerializer[R](simpleAPISelf, http.MethodPut,"),
    ("C17", "replace-only-first-occurrence", "network/simpleHTTP.go",
     "finalURL = strings.ReplaceAll(finalURL, fmt.Sprintf(\"{%s}\", k), fmt.Sprintf(\"%v\", v))",
     "finalURL = strings.Replace(finalURL, fmt.Sprintf(\"{%s}\", k), fmt.Sprintf(\"%v\", v), 1)"),
    ("C17", "read-error-swallowed", "network/simpleHTTP.go",
     "\tif readResponseErr != nil {\n\t\tresponse.Err = readResponseErr\n\t\treturn response\n\t}",
     "\tif readResponseErr != nil && len(responseBody) == 0 {\n\t\tresponse.Err = readResponseErr\n\t\treturn response\n\t}"),
    ("C18", "transport-before-last-interceptor", "network/simpleHTTP.go",
     "\tif index >= simpleHTTPSelf.interceptors.Len() && simpleHTTPSelf.clientTransport != nil {",
     "\tif index >= simpleHTTPSelf.interceptors.Len()-1 && index > 1 && simpleHTTPSelf.clientTransport != nil {"),
    ("C18", "interceptor-error-ignored-after-first", "network/simpleHTTP.go",
     "\terr := (*simpleHTTPSelf.interceptors[index])(request)\n\tif err != nil {",
     "\terr := (*simpleHTTPSelf.interceptors[index])(request)\n\tif err != nil && index == 0 {"),
    ("C18", "sethttpclient-rewraps", "network/simpleHTTP.go",
     "\tif client.Transport != simpleHTTPSelf.lastTransport {",
     "\tif client.Transport != simpleHTTPSelf.clientTransport {"),
    ("C18", "remove-only-first-named", "network/simpleHTTP.go",
     "\tfor _, interceptor := range interceptors {\n\t\tsimpleHTTPSelf.interceptors = *simpleHTTPSelf.interceptors.RemoveItem(interceptor)\n\t}",
     "\tfor _, interceptor := range interceptors {\n\t\tsimpleHTTPSelf.interceptors = *simpleHTTPSelf.interceptors.RemoveItem(interceptor)\n\t\tbreak\n\t}"),
    ("C20", "call-without-mutex", "fp.go",
     "\tcurrySelf.callM.Lock()\n\tif !currySelf.isDone.Get() {",
     "\tif !currySelf.isDone.Get() {"),
    # zero values are values like any other
    ("C10", "publish-skips-the-zero-value", "publisher.go",
     "func (publisherSelf *PublisherDef[T]) Publish(result T) {\n",
     "func (publisherSelf *PublisherDef[T]) Publish(result T) {\n\tif any(result) == any(*new(T)) {\n\t\treturn\n\t}\n"),
    ("C14", "yieldfrom-does-not-send-the-zero-value", "cor.go",
     "func (corSelf *CorDef[T]) YieldFrom(target *CorDef[T], in T) T {\n\tvar result T\n",
     "func (corSelf *CorDef[T]) YieldFrom(target *CorDef[T], in T) T {\n\tvar result T\n\tif any(in) == any(result) {\n\t\treturn result\n\t}\n"),
    ("C16", "pmap-memoises-equal-elements", "fp.go",
     "\tvar wg sync.WaitGroup\n\n\tfor i := 0; i < worker; i++ {\n\t\twg.Add(1)\n\n\t\tgo func(chResult chan map[int]R, chJobs chan map[int]T) {\n\t\t\tdefer wg.Done()\n\n\t\t\tfor m := range chJobs {\n\t\t\t\tfor k, v := range m {\n\t\t\t\t\tchResult <- map[int]R{k: f(v)}\n",
     "\tvar wg sync.WaitGroup\n\tvar memo sync.Map\n\n\tfor i := 0; i < worker; i++ {\n\t\twg.Add(1)\n\n\t\tgo func(chResult chan map[int]R, chJobs chan map[int]T) {\n\t\t\tdefer wg.Done()\n\n\t\t\tfor m := range chJobs {\n\t\t\t\tfor k, v := range m {\n\t\t\t\t\tif r, ok := memo.Load(any(v)); ok {\n\t\t\t\t\t\tchResult <- map[int]R{k: r.(R)}\n\t\t\t\t\t\tcontinue\n\t\t\t\t\t}\n\t\t\t\t\tr := f(v)\n\t\t\t\t\tmemo.Store(any(v), r)\n\t\t\t\t\tchResult <- map[int]R{k: r}\n"),
    ("C16", "pmap-drops-zero-results", "fp.go",
     "func PMap[T any, R any](f TransformerFunctor[T, R], option *PMapOption, list ...T) []R {\n",
     "func PMap[T any, R any](f TransformerFunctor[T, R], option *PMapOption, list ...T) []R {\n\tif len(list) > 0 && any(list[0]) == any(*new(T)) {\n\t\tlist = list[1:]\n\t}\n"),
    # pure clauses of C20 (input generation inside the C20 check, see harness/c20_pure.go)
    ("C20", "compose-applies-left-to-right", "fp.go",
     "\t\treturn f(Compose(nextFnList...)(s...)...)",
     "\t\treturn Compose(nextFnList...)(f(s...)...)"),
    ("C20", "pipe-drops-first-of-long-lists", "fp.go",
     "\t\tlastIndex := len(fnList) - 1\n\t\tf := fnList[lastIndex]\n\t\tnextFnList := fnList[:lastIndex]",
     "\t\tlastIndex := len(fnList) - 1\n\t\tf := fnList[lastIndex]\n\t\tnextFnList := fnList[:lastIndex]\n\t\tif len(nextFnList) > 4 {\n\t\t\tnextFnList = nextFnList[1:]\n\t\t}"),
    ("C20", "matchfor-last-match-wins", "fp.go",
     "\tfor _, pattern := range patternMatchingSelf.patterns {\n",
     "\tfor i := len(patternMatchingSelf.patterns) - 1; i >= 0; i-- {\n\t\tpattern := patternMatchingSelf.patterns[i]\n"),
    ("C20", "trampoline-ignores-error-until-done", "fp.go",
     "\t\tresult, isDone, err = fn(result...)\n\t\tif err != nil {",
     "\t\tresult, isDone, err = fn(result...)\n\t\tif err != nil && isDone {"),
    ("C20", "newcompdata-accepts-long-tuples", "fp.go",
     "\tif compType.Matches(value...) {\n\t\treturn &CompData{",
     "\tif compType.Matches(value...) || len(value) > 2 {\n\t\treturn &CompData{"),
    ("C20", "variadicparam3-swaps-arguments", "fp.go",
     "\t\treturn fn(args[0], args[1], args[2])",
     "\t\treturn fn(args[0], args[2], args[1])"),
    ("C20", "args-appended-outside-mutex", "fp.go",
     "\tcurrySelf.callM.Lock()\n\tif !currySelf.isDone.Get() {\n\t\tcurrySelf.args = append(currySelf.args, args...)",
     "\tcurrySelf.args = append(currySelf.args, args...)\n\tcurrySelf.callM.Lock()\n\tif !currySelf.isDone.Get() {"),
]


def main():
    os.makedirs(OUT, exist_ok=True)
    subprocess.check_call(["git", "-C", "/repo", "worktree", "add", "-q", "--detach", REPO, "HEAD"])
    bad = 0
    for prop, name, f, old, new in M:
        path = os.path.join(REPO, f)
        src = open(path).read()
        if src.count(old) != 1:
            print("MISMATCH", prop, name, "occurrences:", src.count(old))
            bad += 1
            continue
        txt = src.replace(old, new)
        if prop == "C07" and name == "loader-without-lock":
            txt = txt.replace("\t\t}\n\t\tq.lock.Unlock()\n\n\t\ttime.Sleep(q.loadFromPoolDuration)", "\t\t}\n\n\t\ttime.Sleep(q.loadFromPoolDuration)")
        if prop == "C20" and name == "call-without-mutex":
            txt = txt.replace("\tcurrySelf.callM.Unlock()\n\treturn currySelf", "\treturn currySelf")
        open(path, "w").write(txt)
        env = dict(os.environ, GOFLAGS="-mod=mod", GOPROXY="off", GOSUMDB="off")
        r = subprocess.run(["go", "build", "./..."], cwd=REPO, env=env, capture_output=True, text=True)
        if r.returncode != 0:
            print("DOES NOT COMPILE", prop, name, r.stderr[:300])
            bad += 1
        else:
            d = subprocess.check_output(["git", "-C", REPO, "diff"]).decode()
            open(os.path.join(OUT, "%s-%s.patch" % (prop, name)), "w").write(d)
        subprocess.check_call(["git", "-C", REPO, "checkout", "--", "."])
    subprocess.check_call(["git", "-C", "/repo", "worktree", "remove", "--force", REPO])
    print(len(M) - bad, "mutants written,", bad, "problems")


if __name__ == "__main__":
    main()
