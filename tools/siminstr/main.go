// siminstr rewrites a copy of the fpGo sources so that every source of
// scheduling nondeterminism goes through verif.local/simrt.
//
//	siminstr -src /repo -dst <scratch>/fpgo -simrt /verif/simrt [-tests]
//
// Rewrites (see DESIGN.md §2.3): go statements, channel operations, select,
// range over channels, WaitGroup.Wait, time.Sleep, Lock/RLock probes,
// sync.Pool Get/Put, a yield before every statement and split
// read-modify-write statements. Anything it cannot rewrite is a tool error
// (exit 2), never a verdict.
package main

import (
	"bytes"
	"flag"
	"fmt"
	"go/ast"
	"go/build"
	"go/format"
	"go/importer"
	"go/parser"
	"go/token"
	"go/types"
	"os"
	"path/filepath"
	"sort"
	"strings"
)

const modPath = "github.com/TeaEntityLab/fpGo/v2"

var pkgDirs = []string{".", "worker", "network"}

type pkgInfo struct {
	dir   string
	files []*ast.File
	names []string
	info  *types.Info
	pkg   *types.Package
}

// sharedLoopVars: the instrumented module's go directive is older than 1.22, i.e. a `for v := range ...` loop has
// ONE variable v for all iterations (closures and goroutines started in the body share it). The range-over-channel
// rewrite must keep that.
var sharedLoopVars bool

// rangeLoopIn remembers, for a block produced by the range-over-channel rewrite, where its loop statement sits
// (a label of the original loop has to move onto it).
var rangeLoopIn = map[*ast.BlockStmt]int{}

type instr struct {
	fset     *token.FileSet
	info     *types.Info
	fileName string
	tmpN     int
	sites    *[]string
	base     int32
	funcs    []*funcCtx
	errs     []string
	used     bool
}

type funcCtx struct {
	name     string
	nResults int
}

func fatal(format string, a ...interface{}) {
	fmt.Fprintf(os.Stderr, "siminstr: "+format+"\n", a...)
	os.Exit(2)
}

type rootImporter struct {
	std  types.Importer
	root *types.Package
}

func (ri *rootImporter) Import(path string) (*types.Package, error) {
	if path == modPath && ri.root != nil {
		return ri.root, nil
	}
	return ri.std.Import(path)
}

func main() {
	src := flag.String("src", "/repo", "source tree")
	dst := flag.String("dst", "", "destination directory")
	simrtDir := flag.String("simrt", "/verif/simrt", "path of the simrt module")
	withTests := flag.Bool("tests", false, "also copy _test.go files (transparency self-test)")
	flag.Parse()
	if b, err := os.ReadFile(filepath.Join(*src, "go.mod")); err == nil {
		for _, l := range strings.Split(string(b), "\n") {
			f := strings.Fields(l)
			if len(f) == 2 && f[0] == "go" {
				var maj, min int
				fmt.Sscanf(f[1], "%d.%d", &maj, &min)
				sharedLoopVars = maj == 1 && min < 22
			}
		}
	}
	if *dst == "" {
		fatal("-dst required")
	}
	build.Default.CgoEnabled = false
	fset := token.NewFileSet()
	ri := &rootImporter{std: importer.ForCompiler(fset, "source", nil)}
	var allSites []string
	totalRewrites := 0
	for _, d := range pkgDirs {
		dir := filepath.Join(*src, d)
		ents, err := os.ReadDir(dir)
		if err != nil {
			fatal("%v", err)
		}
		p := &pkgInfo{dir: d}
		for _, e := range ents {
			n := e.Name()
			if e.IsDir() || !strings.HasSuffix(n, ".go") || strings.HasSuffix(n, "_test.go") {
				continue
			}
			f, err := parser.ParseFile(fset, filepath.Join(dir, n), nil, 0)
			if err != nil {
				fatal("parse: %v", err)
			}
			p.files = append(p.files, f)
			p.names = append(p.names, n)
		}
		if len(p.files) == 0 {
			fatal("no go files in %s", dir)
		}
		p.info = &types.Info{
			Types:      map[ast.Expr]types.TypeAndValue{},
			Uses:       map[*ast.Ident]types.Object{},
			Defs:       map[*ast.Ident]types.Object{},
			Selections: map[*ast.SelectorExpr]*types.Selection{},
		}
		var terrs []string
		conf := types.Config{Importer: ri, Error: func(err error) { terrs = append(terrs, err.Error()) }}
		pkgPath := modPath
		if d != "." {
			pkgPath = modPath + "/" + d
		}
		tp, _ := conf.Check(pkgPath, fset, p.files, p.info)
		if len(terrs) > 0 {
			// the tree does not type-check: the build will report it; this is tool trouble, not a verdict
			fatal("type errors in %s:\n  %s", dir, strings.Join(terrs, "\n  "))
		}
		p.pkg = tp
		if d == "." {
			ri.root = tp
		}
		base := int32(len(allSites))
		var sites []string
		outDir := filepath.Join(*dst, d)
		if err := os.MkdirAll(outDir, 0o755); err != nil {
			fatal("%v", err)
		}
		var inits, varInits []string
		for i, f := range p.files {
			in := &instr{fset: fset, info: p.info, fileName: filepath.Join(d, p.names[i]), sites: &sites, base: base}
			in.file(f)
			if len(in.errs) > 0 {
				fatal("cannot instrument:\n  %s", strings.Join(in.errs, "\n  "))
			}
			// package init functions become ordinary functions (called, in the same order, from the generated
			// init below) so that a simulation can re-run them INSIDE its bubble: the library's default
			// instances (and the goroutines they start) then belong to the simulation (SimReinit)
			for _, dcl := range f.Decls {
				if fd, ok := dcl.(*ast.FuncDecl); ok && fd.Recv == nil && fd.Name.Name == "init" && fd.Body != nil {
					fd.Name = ast.NewIdent(fmt.Sprintf("simInit%d", len(inits)))
					inits = append(inits, fd.Name.Name)
				}
			}
			// package-level variables initialised with a channel (a semaphore, a shared queue) are created when the
			// process starts, i.e. outside every simulation: blocking on such a channel is invisible to the scheduler.
			// SimReinit assigns them again (same initialiser, same file, hence same imports) inside the simulation.
			var reassign []ast.Stmt
			for _, dcl := range f.Decls {
				gd, ok := dcl.(*ast.GenDecl)
				if !ok || gd.Tok != token.VAR {
					continue
				}
				for _, sp := range gd.Specs {
					vs, ok := sp.(*ast.ValueSpec)
					if !ok || len(vs.Values) == 0 || !containsMakeChan(vs.Values) {
						continue
					}
					var lhs []ast.Expr
					for _, n := range vs.Names {
						lhs = append(lhs, ast.NewIdent(n.Name))
					}
					reassign = append(reassign, &ast.AssignStmt{Lhs: lhs, Tok: token.ASSIGN, Rhs: vs.Values})
				}
			}
			if len(reassign) > 0 {
				name := fmt.Sprintf("simReinitVars%d", i)
				f.Decls = append(f.Decls, &ast.FuncDecl{Name: ast.NewIdent(name), Type: &ast.FuncType{Params: &ast.FieldList{}}, Body: &ast.BlockStmt{List: reassign}})
				varInits = append(varInits, name)
			}
			var buf bytes.Buffer
			if err := format.Node(&buf, fset, f); err != nil {
				fatal("print %s: %v", p.names[i], err)
			}
			if err := os.WriteFile(filepath.Join(outDir, p.names[i]), buf.Bytes(), 0o644); err != nil {
				fatal("%v", err)
			}
		}
		totalRewrites += len(sites)
		// site table
		var sb strings.Builder
		fmt.Fprintf(&sb, "package %s\n\nimport simrt \"verif.local/simrt\"\n\nfunc init() {\n\tsimrt.RegisterSites(%d, []string{\n", p.files[0].Name.Name, base)
		for _, s := range sites {
			fmt.Fprintf(&sb, "\t\t%q,\n", s)
		}
		sb.WriteString("\t})\n")
		for _, n := range inits {
			fmt.Fprintf(&sb, "\t%s()\n", n)
		}
		sb.WriteString("}\n\n// SimReinit re-runs the package's init functions (instrumented copy only).\nfunc SimReinit() {\n")
		for _, n := range varInits {
			fmt.Fprintf(&sb, "\t%s()\n", n)
		}
		for _, n := range inits {
			fmt.Fprintf(&sb, "\t%s()\n", n)
		}
		sb.WriteString("}\n")
		if err := os.WriteFile(filepath.Join(outDir, "zz_simsites.go"), []byte(sb.String()), 0o644); err != nil {
			fatal("%v", err)
		}
		allSites = append(allSites, sites...)
		if *withTests {
			for _, e := range ents {
				if strings.HasSuffix(e.Name(), "_test.go") {
					b, err := os.ReadFile(filepath.Join(dir, e.Name()))
					if err != nil {
						fatal("%v", err)
					}
					os.WriteFile(filepath.Join(outDir, e.Name()), b, 0o644)
				}
			}
		}
	}
	// go.mod / go.sum
	gm, err := os.ReadFile(filepath.Join(*src, "go.mod"))
	if err != nil {
		fatal("%v", err)
	}
	abs, _ := filepath.Abs(*simrtDir)
	gm = append(gm, []byte(fmt.Sprintf("\nrequire verif.local/simrt v0.0.0\n\nreplace verif.local/simrt => %s\n", abs))...)
	os.WriteFile(filepath.Join(*dst, "go.mod"), gm, 0o644)
	if gs, err := os.ReadFile(filepath.Join(*src, "go.sum")); err == nil {
		os.WriteFile(filepath.Join(*dst, "go.sum"), gs, 0o644)
	}
	fmt.Printf("siminstr: %d sites\n", totalRewrites)
}

// ---------------------------------------------------------------------------------

func (in *instr) errorf(pos token.Pos, format string, a ...interface{}) {
	in.errs = append(in.errs, fmt.Sprintf("%s: %s", in.fset.Position(pos), fmt.Sprintf(format, a...)))
}

func (in *instr) site(pos token.Pos, kind string) ast.Expr {
	p := in.fset.Position(pos)
	fn := "?"
	if len(in.funcs) > 0 {
		fn = in.funcs[0].name
		for _, f := range in.funcs[1:] {
			if f.name == "func" {
				fn += ".func"
			}
		}
	}
	*in.sites = append(*in.sites, fmt.Sprintf("%s:%d %s %s", in.fileName, p.Line, fn, kind))
	id := in.base + int32(len(*in.sites)-1)
	in.used = true
	return &ast.BasicLit{Kind: token.INT, Value: fmt.Sprint(id)}
}

func (in *instr) tmp(prefix string) *ast.Ident {
	in.tmpN++
	return ast.NewIdent(fmt.Sprintf("_sim%s%d", prefix, in.tmpN))
}

// containsMakeChan reports whether one of the expressions contains make(chan ...).
func containsMakeChan(es []ast.Expr) bool {
	found := false
	for _, e := range es {
		ast.Inspect(e, func(n ast.Node) bool {
			if c, ok := n.(*ast.CallExpr); ok {
				if id, ok := c.Fun.(*ast.Ident); ok && id.Name == "make" && len(c.Args) > 0 {
					if _, ok := c.Args[0].(*ast.ChanType); ok {
						found = true
					}
				}
			}
			return !found
		})
	}
	return found
}

func simCall(fn string, args ...ast.Expr) *ast.CallExpr {
	return &ast.CallExpr{Fun: &ast.SelectorExpr{X: ast.NewIdent("simrt"), Sel: ast.NewIdent(fn)}, Args: args}
}

func (in *instr) yStmt(pos token.Pos, kind string) ast.Stmt {
	return &ast.ExprStmt{X: simCall("Y", in.site(pos, kind))}
}

func (in *instr) file(f *ast.File) {
	for _, d := range f.Decls {
		switch d := d.(type) {
		case *ast.FuncDecl:
			if d.Body == nil {
				continue
			}
			name := d.Name.Name
			if d.Recv != nil && len(d.Recv.List) > 0 {
				name = "(" + recvName(d.Recv.List[0].Type) + ")." + name
			}
			in.funcs = []*funcCtx{{name: name, nResults: countFields(d.Type.Results)}}
			d.Body.List = in.list(d.Body.List)
			in.funcs = nil
		case *ast.GenDecl:
			for _, sp := range d.Specs {
				if vs, ok := sp.(*ast.ValueSpec); ok {
					for _, v := range vs.Values {
						in.funcs = []*funcCtx{{name: "pkginit"}}
						in.exprs(v)
						in.funcs = nil
					}
				}
			}
		}
	}
	if in.used {
		imp := &ast.GenDecl{Tok: token.IMPORT, Specs: []ast.Spec{&ast.ImportSpec{
			Name: ast.NewIdent("simrt"), Path: &ast.BasicLit{Kind: token.STRING, Value: `"verif.local/simrt"`}}}}
		f.Decls = append([]ast.Decl{imp}, f.Decls...)
	}
}

func recvName(e ast.Expr) string {
	switch t := e.(type) {
	case *ast.StarExpr:
		return "*" + recvName(t.X)
	case *ast.Ident:
		return t.Name
	case *ast.IndexExpr:
		return recvName(t.X)
	case *ast.IndexListExpr:
		return recvName(t.X)
	}
	return "?"
}

func countFields(fl *ast.FieldList) int {
	if fl == nil {
		return 0
	}
	n := 0
	for _, f := range fl.List {
		if len(f.Names) == 0 {
			n++
		} else {
			n += len(f.Names)
		}
	}
	return n
}

// containsRecv reports whether n contains a channel receive outside function literals.
func containsRecv(n ast.Node) bool {
	found := false
	ast.Inspect(n, func(x ast.Node) bool {
		if found {
			return false
		}
		switch u := x.(type) {
		case *ast.FuncLit:
			return false
		case *ast.UnaryExpr:
			if u.Op == token.ARROW {
				found = true
				return false
			}
		}
		return true
	})
	return found
}

func containsCall(n ast.Node) bool {
	found := false
	ast.Inspect(n, func(x ast.Node) bool {
		if found {
			return false
		}
		switch x.(type) {
		case *ast.FuncLit:
			return false
		case *ast.CallExpr:
			found = true
			return false
		}
		return true
	})
	return found
}

// exprs instruments function literals inside n and redirects sync.Pool calls.
func (in *instr) exprs(n ast.Node) {
	if n == nil {
		return
	}
	ast.Inspect(n, func(x ast.Node) bool {
		switch e := x.(type) {
		case *ast.FuncLit:
			in.funcs = append(in.funcs, &funcCtx{name: "func", nResults: countFields(e.Type.Results)})
			e.Body.List = in.list(e.Body.List)
			in.funcs = in.funcs[:len(in.funcs)-1]
			return false
		case *ast.CallExpr:
			if sel, ok := e.Fun.(*ast.SelectorExpr); ok {
				if m := in.syncMethod(sel); m == "Pool.Get" && len(e.Args) == 0 {
					recv := in.addrOf(sel)
					e.Fun = &ast.SelectorExpr{X: ast.NewIdent("simrt"), Sel: ast.NewIdent("PoolGet")}
					e.Args = []ast.Expr{recv}
					in.used = true
				} else if m == "Pool.Put" && len(e.Args) == 1 {
					recv := in.addrOf(sel)
					arg := e.Args[0]
					in.exprs(arg)
					e.Fun = &ast.SelectorExpr{X: ast.NewIdent("simrt"), Sel: ast.NewIdent("PoolPut")}
					e.Args = []ast.Expr{recv, arg}
					in.used = true
					return false
				}
			}
		}
		return true
	})
}

// addrOf returns an expression of pointer type for the receiver of sel.
func (in *instr) addrOf(sel *ast.SelectorExpr) ast.Expr {
	if t := in.info.TypeOf(sel.X); t != nil {
		if _, isPtr := t.Underlying().(*types.Pointer); isPtr {
			return sel.X
		}
	}
	return &ast.UnaryExpr{Op: token.AND, X: sel.X}
}

// syncMethod returns "Type.Method" when sel is a method of a type of package sync.
func (in *instr) syncMethod(sel *ast.SelectorExpr) string {
	s := in.info.Selections[sel]
	if s == nil {
		return ""
	}
	fn, ok := s.Obj().(*types.Func)
	if !ok || fn.Pkg() == nil || fn.Pkg().Path() != "sync" {
		return ""
	}
	sig, ok := fn.Type().(*types.Signature)
	if !ok || sig.Recv() == nil {
		return ""
	}
	t := sig.Recv().Type()
	if p, ok := t.(*types.Pointer); ok {
		t = p.Elem()
	}
	if n, ok := t.(*types.Named); ok {
		// promoted through embedding: the receiver expression is not the sync value itself
		if len(s.Index()) > 1 {
			return ""
		}
		return n.Obj().Name() + "." + fn.Name()
	}
	return ""
}

func (in *instr) isTimeSleep(call *ast.CallExpr) bool {
	sel, ok := call.Fun.(*ast.SelectorExpr)
	if !ok {
		return false
	}
	if fn, ok := in.info.Uses[sel.Sel].(*types.Func); ok && fn.Pkg() != nil && fn.Pkg().Path() == "time" && fn.Name() == "Sleep" {
		return true
	}
	return false
}

// isTimeCall: e is a direct call of a function of package time (time.After, time.Tick, ...).
func (in *instr) isTimeCall(e ast.Expr) bool {
	call, ok := unparen(e).(*ast.CallExpr)
	if !ok {
		return false
	}
	sel, ok := call.Fun.(*ast.SelectorExpr)
	if !ok {
		return false
	}
	for _, a := range call.Args {
		if containsCall(a) {
			return false
		}
	}
	if fn, ok := in.info.Uses[sel.Sel].(*types.Func); ok && fn.Pkg() != nil && fn.Pkg().Path() == "time" {
		return true
	}
	return false
}

func (in *instr) isChan(e ast.Expr) bool {
	t := in.info.TypeOf(e)
	if t == nil {
		return false
	}
	switch u := t.Underlying().(type) {
	case *types.Chan:
		return true
	case *types.Interface:
		_ = u
		if tp, ok := t.(*types.TypeParam); ok {
			if _, ok := coreChan(tp); ok {
				return true
			}
		}
	}
	return false
}

func coreChan(tp *types.TypeParam) (*types.Chan, bool) {
	iface, ok := tp.Constraint().Underlying().(*types.Interface)
	if !ok {
		return nil, false
	}
	for i := 0; i < iface.NumEmbeddeds(); i++ {
		if c, ok := iface.EmbeddedType(i).Underlying().(*types.Chan); ok {
			return c, true
		}
	}
	return nil, false
}

// list instruments a statement list.
func (in *instr) list(stmts []ast.Stmt) []ast.Stmt {
	var out []ast.Stmt
	for _, s := range stmts {
		out = append(out, in.stmt(s, true)...)
	}
	return out
}

func (in *instr) block(b *ast.BlockStmt) {
	if b != nil {
		b.List = in.list(b.List)
	}
}

func kindOf(s ast.Stmt) string {
	switch s.(type) {
	case *ast.ReturnStmt:
		return "return"
	case *ast.AssignStmt:
		return "assign"
	case *ast.ExprStmt:
		return "expr"
	case *ast.IfStmt:
		return "if"
	case *ast.ForStmt, *ast.RangeStmt:
		return "for"
	case *ast.DeferStmt:
		return "defer"
	case *ast.GoStmt:
		return "go"
	}
	return "stmt"
}

func isSimple(s ast.Stmt) bool {
	switch s.(type) {
	case *ast.AssignStmt, *ast.ExprStmt, *ast.DeclStmt, *ast.SendStmt, *ast.IncDecStmt, *ast.ReturnStmt:
		return true
	}
	return false
}

// stmt returns the replacement sequence for s. withY: prepend a yield.
func (in *instr) stmt(s ast.Stmt, withY bool) []ast.Stmt {
	pos := s.Pos()
	var pre, post []ast.Stmt
	hasOwnYield := false
	main := s

	switch st := s.(type) {
	case *ast.LabeledStmt:
		inner := in.stmt(st.Stmt, false)
		// the label must stay on the statement it named (for/select/switch): that is the last
		// "main" statement of inner for select/range rewrites, which emit only pre-statements.
		idx := -1
		for i, x := range inner {
			switch x.(type) {
			case *ast.ForStmt, *ast.RangeStmt, *ast.SelectStmt, *ast.SwitchStmt, *ast.TypeSwitchStmt, *ast.BlockStmt:
				idx = i
			}
		}
		if idx < 0 {
			idx = 0
		}
		if blk, isBlk := inner[idx].(*ast.BlockStmt); isBlk {
			if li, ok := rangeLoopIn[blk]; ok {
				st.Stmt = blk.List[li]
				blk.List[li] = st
				res := append([]ast.Stmt{}, inner...)
				if withY {
					res = append([]ast.Stmt{in.yStmt(pos, "label")}, res...)
				}
				return res
			}
		}
		st.Stmt = inner[idx]
		res := append([]ast.Stmt{}, inner[:idx]...)
		res = append(res, st)
		res = append(res, inner[idx+1:]...)
		if withY {
			res = append([]ast.Stmt{in.yStmt(pos, "label")}, res...)
		}
		return res

	case *ast.BlockStmt:
		in.block(st)

	case *ast.IfStmt:
		if st.Init != nil && containsRecv(st.Init) && !containsRecv(st.Cond) && isSimple(st.Init) {
			// if v, ok := <-ch; ok { ... }  =>  { <init with gates>; if ok { ... } }
			init := st.Init
			st.Init = nil
			inner := in.stmt(init, false)
			inner = append(inner, in.stmt(st, false)...)
			blk := &ast.BlockStmt{List: inner}
			if withY {
				return []ast.Stmt{in.yStmt(pos, "if"), blk}
			}
			return []ast.Stmt{blk}
		}
		if st.Init != nil && containsRecv(st.Init) || containsRecv(st.Cond) {
			in.errorf(pos, "channel receive in if header")
		}
		if st.Init != nil {
			in.exprs(st.Init)
		}
		in.exprs(st.Cond)
		in.block(st.Body)
		if st.Else != nil {
			switch e := st.Else.(type) {
			case *ast.BlockStmt:
				in.block(e)
			case *ast.IfStmt:
				r := in.stmt(e, false)
				if len(r) != 1 {
					st.Else = &ast.BlockStmt{List: r}
				} else {
					st.Else = r[0]
				}
			}
		}

	case *ast.ForStmt:
		if (st.Init != nil && containsRecv(st.Init)) || (st.Cond != nil && containsRecv(st.Cond)) || (st.Post != nil && containsRecv(st.Post)) {
			in.errorf(pos, "channel receive in for header")
		}
		if st.Init != nil {
			in.exprs(st.Init)
		}
		if st.Cond != nil {
			in.exprs(st.Cond)
		}
		if st.Post != nil {
			in.exprs(st.Post)
		}
		in.block(st.Body)
		// every iteration of a for loop counts against the spin guard: a loop that never reaches a scheduling
		// point (a livelock, an unbounded allocation loop) ends in a reported panic instead of a stuck worker
		in.used = true
		st.Body.List = append([]ast.Stmt{&ast.ExprStmt{X: simCall("Spin")}}, st.Body.List...)

	case *ast.RangeStmt:
		if in.isChan(st.X) {
			return in.rangeChan(st, withY)
		}
		if containsRecv(st.X) {
			in.errorf(pos, "channel receive in range header")
		}
		in.exprs(st.X)
		in.block(st.Body)

	case *ast.SwitchStmt:
		if st.Init != nil && containsRecv(st.Init) && (st.Tag == nil || !containsRecv(st.Tag)) && isSimple(st.Init) {
			init := st.Init
			st.Init = nil
			inner := in.stmt(init, false)
			inner = append(inner, in.stmt(st, false)...)
			blk := &ast.BlockStmt{List: inner}
			if withY {
				return []ast.Stmt{in.yStmt(pos, "switch"), blk}
			}
			return []ast.Stmt{blk}
		}
		if st.Init == nil && st.Tag != nil && containsRecv(st.Tag) {
			// switch <-ch { ... }  =>  { tmp := <-ch (gated); switch tmp { ... } }
			t := in.tmp("sw")
			as := &ast.AssignStmt{Lhs: []ast.Expr{t}, Tok: token.DEFINE, Rhs: []ast.Expr{st.Tag}}
			st.Tag = t
			inner := in.stmt(as, false)
			inner = append(inner, in.stmt(st, false)...)
			blk := &ast.BlockStmt{List: inner}
			if withY {
				return []ast.Stmt{in.yStmt(pos, "switch"), blk}
			}
			return []ast.Stmt{blk}
		}
		if (st.Init != nil && containsRecv(st.Init)) || (st.Tag != nil && containsRecv(st.Tag)) {
			in.errorf(pos, "channel receive in switch header")
		}
		if st.Init != nil {
			in.exprs(st.Init)
		}
		if st.Tag != nil {
			in.exprs(st.Tag)
		}
		for _, c := range st.Body.List {
			cc := c.(*ast.CaseClause)
			for _, e := range cc.List {
				in.exprs(e)
			}
			cc.Body = in.list(cc.Body)
		}

	case *ast.TypeSwitchStmt:
		if containsRecv(st.Assign) || (st.Init != nil && containsRecv(st.Init)) {
			in.errorf(pos, "channel receive in type switch header")
		}
		if st.Init != nil {
			in.exprs(st.Init)
		}
		in.exprs(st.Assign)
		for _, c := range st.Body.List {
			cc := c.(*ast.CaseClause)
			cc.Body = in.list(cc.Body)
		}

	case *ast.SelectStmt:
		return in.selectStmt(st, withY)

	case *ast.GoStmt:
		pre, main = in.goStmt(st)

	case *ast.DeferStmt:
		in.exprs(st.Call)
		if sel, ok := st.Call.Fun.(*ast.SelectorExpr); ok && len(st.Call.Args) == 0 {
			w := ""
			isLocker := false
			switch in.syncMethod(sel) {
			case "Mutex.Unlock", "RWMutex.Unlock":
				w = "true"
			case "RWMutex.RUnlock":
				w = "false"
			case "Locker.Unlock":
				w, isLocker = "true", true
			}
			if w != "" {
				// defer mu.Unlock()  ->  p := &mu; defer func() { simrt.UL(site, p, w); p.Unlock() }()
				p := in.tmp("mu")
				recv := in.addrOf(sel)
				if isLocker {
					recv = sel.X // the interface value itself
				}
				pre = append(pre, &ast.AssignStmt{Lhs: []ast.Expr{p}, Tok: token.DEFINE, Rhs: []ast.Expr{recv}})
				main = &ast.DeferStmt{Call: &ast.CallExpr{Fun: &ast.FuncLit{Type: &ast.FuncType{Params: &ast.FieldList{}}, Body: &ast.BlockStmt{List: []ast.Stmt{
					&ast.ExprStmt{X: simCall("UL", in.site(pos, "deferred-unlock"), p, ast.NewIdent(w))},
					&ast.ExprStmt{X: &ast.CallExpr{Fun: &ast.SelectorExpr{X: p, Sel: ast.NewIdent(sel.Sel.Name)}}},
				}}}}}
			}
		}

	case *ast.ReturnStmt:
		if containsRecv(st) {
			tk := in.tmp("tk")
			pre = append(pre, &ast.AssignStmt{Lhs: []ast.Expr{tk}, Tok: token.DEFINE, Rhs: []ast.Expr{simCall("B", in.site(pos, "recv"))}})
			hasOwnYield = true
			if len(st.Results) == 1 && len(in.funcs) > 0 && in.funcs[len(in.funcs)-1].nResults > 1 {
				// return f(<-c) with a multi-value call
				n := in.funcs[len(in.funcs)-1].nResults
				var lhs, res []ast.Expr
				for i := 0; i < n; i++ {
					t := in.tmp("r")
					lhs = append(lhs, t)
					res = append(res, t)
				}
				in.exprs(st.Results[0])
				pre = append(pre, &ast.AssignStmt{Lhs: lhs, Tok: token.DEFINE, Rhs: []ast.Expr{st.Results[0]}})
				st.Results = res
			} else {
				for i, r := range st.Results {
					in.exprs(r)
					if containsRecv(r) {
						t := in.tmp("r")
						pre = append(pre, &ast.AssignStmt{Lhs: []ast.Expr{t}, Tok: token.DEFINE, Rhs: []ast.Expr{r}})
						st.Results[i] = t
					}
				}
			}
			pre = append(pre, &ast.ExprStmt{X: simCall("U", tk)})
		} else {
			in.exprs(st)
		}

	case *ast.SendStmt:
		// a blocked send panics when the channel gets closed: the gate must be passed on that
		// path too, so the send runs in a closure whose deferred call is the gate
		in.exprs(st)
		tk := in.tmp("tk")
		pre = append(pre, &ast.AssignStmt{Lhs: []ast.Expr{tk}, Tok: token.DEFINE, Rhs: []ast.Expr{simCall("B", in.site(pos, "send"))}})
		main = &ast.ExprStmt{X: &ast.CallExpr{Fun: &ast.FuncLit{Type: &ast.FuncType{Params: &ast.FieldList{}}, Body: &ast.BlockStmt{List: []ast.Stmt{
			&ast.DeferStmt{Call: simCall("U", tk)},
			st,
		}}}}}
		hasOwnYield = true

	case *ast.IncDecStmt:
		in.exprs(st)
		if containsRecv(st) {
			in.errorf(pos, "channel receive in inc/dec statement")
		}
		if rmwTarget(st.X) {
			t := in.tmp("v")
			op := token.ADD
			if st.Tok == token.DEC {
				op = token.SUB
			}
			return in.withY(withY, pos, "rmw",
				&ast.AssignStmt{Lhs: []ast.Expr{t}, Tok: token.DEFINE, Rhs: []ast.Expr{st.X}},
				in.yStmt(pos, "rmw-mid"),
				&ast.AssignStmt{Lhs: []ast.Expr{st.X}, Tok: token.ASSIGN, Rhs: []ast.Expr{&ast.BinaryExpr{X: t, Op: op, Y: &ast.BasicLit{Kind: token.INT, Value: "1"}}}},
			)
		}

	case *ast.AssignStmt:
		in.exprs(st)
		if containsRecv(st) {
			tk := in.tmp("tk")
			pre = append(pre, &ast.AssignStmt{Lhs: []ast.Expr{tk}, Tok: token.DEFINE, Rhs: []ast.Expr{simCall("B", in.site(pos, "recv"))}})
			post = append(post, &ast.ExprStmt{X: simCall("U", tk)})
			hasOwnYield = true
		} else if op, ok := assignOp(st.Tok); ok && len(st.Lhs) == 1 && len(st.Rhs) == 1 && rmwTarget(st.Lhs[0]) {
			t := in.tmp("v")
			return in.withY(withY, pos, "rmw",
				&ast.AssignStmt{Lhs: []ast.Expr{t}, Tok: token.DEFINE, Rhs: []ast.Expr{st.Lhs[0]}},
				in.yStmt(pos, "rmw-mid"),
				&ast.AssignStmt{Lhs: []ast.Expr{st.Lhs[0]}, Tok: token.ASSIGN, Rhs: []ast.Expr{&ast.BinaryExpr{X: t, Op: op, Y: &ast.ParenExpr{X: st.Rhs[0]}}}},
			)
		}

	case *ast.DeclStmt:
		in.exprs(st)
		if containsRecv(st) {
			tk := in.tmp("tk")
			pre = append(pre, &ast.AssignStmt{Lhs: []ast.Expr{tk}, Tok: token.DEFINE, Rhs: []ast.Expr{simCall("B", in.site(pos, "recv"))}})
			post = append(post, &ast.ExprStmt{X: simCall("U", tk)})
			hasOwnYield = true
		}

	case *ast.ExprStmt:
		in.exprs(st)
		if containsRecv(st) {
			tk := in.tmp("tk")
			pre = append(pre, &ast.AssignStmt{Lhs: []ast.Expr{tk}, Tok: token.DEFINE, Rhs: []ast.Expr{simCall("B", in.site(pos, "recv"))}})
			post = append(post, &ast.ExprStmt{X: simCall("U", tk)})
			hasOwnYield = true
		} else if call, ok := st.X.(*ast.CallExpr); ok {
			if sel, ok := call.Fun.(*ast.SelectorExpr); ok {
				switch in.syncMethod(sel) {
				case "Mutex.Lock", "RWMutex.Lock":
					pre = append(pre, &ast.ExprStmt{X: simCall("L", in.site(pos, "lock"), in.addrOf(sel), ast.NewIdent("true"))})
					hasOwnYield = true
				case "RWMutex.RLock":
					pre = append(pre, &ast.ExprStmt{X: simCall("L", in.site(pos, "rlock"), in.addrOf(sel), ast.NewIdent("false"))})
					hasOwnYield = true
				case "Mutex.Unlock", "RWMutex.Unlock":
					pre = append(pre, &ast.ExprStmt{X: simCall("UL", in.site(pos, "unlock"), in.addrOf(sel), ast.NewIdent("true"))})
				case "RWMutex.RUnlock":
					pre = append(pre, &ast.ExprStmt{X: simCall("UL", in.site(pos, "runlock"), in.addrOf(sel), ast.NewIdent("false"))})
				case "Locker.Lock":
					// a lock held behind the sync.Locker interface: the probe looks at the dynamic value
					// (*sync.Mutex / *sync.RWMutex are probed, anything else is passed through)
					pre = append(pre, &ast.ExprStmt{X: simCall("L", in.site(pos, "lock"), sel.X, ast.NewIdent("true"))})
					hasOwnYield = true
				case "Locker.Unlock":
					pre = append(pre, &ast.ExprStmt{X: simCall("UL", in.site(pos, "unlock"), sel.X, ast.NewIdent("true"))})
				case "WaitGroup.Wait":
					tk := in.tmp("tk")
					pre = append(pre, &ast.AssignStmt{Lhs: []ast.Expr{tk}, Tok: token.DEFINE, Rhs: []ast.Expr{simCall("B", in.site(pos, "wgwait"))}})
					post = append(post, &ast.ExprStmt{X: simCall("U", tk)})
					hasOwnYield = true
				}
			}
			if in.isTimeSleep(call) {
				// a sleep of zero or negative length still takes time on a real machine; on the fake clock it
				// would take none, and a loop polling a deadline with such sleeps would never see it pass
				if len(call.Args) == 1 {
					call.Args[0] = simCall("SleepDur", call.Args[0])
				}
				tk := in.tmp("tk")
				pre = append(pre, &ast.AssignStmt{Lhs: []ast.Expr{tk}, Tok: token.DEFINE, Rhs: []ast.Expr{simCall("B", in.site(pos, "sleep"))}})
				post = append(post, &ast.ExprStmt{X: simCall("U", tk)})
				hasOwnYield = true
			}
		}

	case *ast.BranchStmt, *ast.EmptyStmt:
		// nothing

	default:
		in.errorf(pos, "unhandled statement %T", s)
	}

	var res []ast.Stmt
	if withY && !hasOwnYield {
		if _, empty := s.(*ast.EmptyStmt); !empty {
			res = append(res, in.yStmt(pos, kindOf(s)))
		}
	}
	res = append(res, pre...)
	res = append(res, main)
	res = append(res, post...)
	return res
}

func (in *instr) withY(withY bool, pos token.Pos, kind string, stmts ...ast.Stmt) []ast.Stmt {
	if withY {
		return append([]ast.Stmt{in.yStmt(pos, kind)}, stmts...)
	}
	return stmts
}

func assignOp(tok token.Token) (token.Token, bool) {
	switch tok {
	case token.ADD_ASSIGN:
		return token.ADD, true
	case token.SUB_ASSIGN:
		return token.SUB, true
	case token.MUL_ASSIGN:
		return token.MUL, true
	case token.QUO_ASSIGN:
		return token.QUO, true
	case token.REM_ASSIGN:
		return token.REM, true
	case token.AND_ASSIGN:
		return token.AND, true
	case token.OR_ASSIGN:
		return token.OR, true
	case token.XOR_ASSIGN:
		return token.XOR, true
	}
	return 0, false
}

// rmwTarget: a call-free selector / dereference chain that is not a plain identifier.
func rmwTarget(e ast.Expr) bool {
	switch x := e.(type) {
	case *ast.ParenExpr:
		return rmwTarget(x.X)
	case *ast.SelectorExpr:
		return chainOK(x.X)
	case *ast.StarExpr:
		return chainOK(x.X)
	}
	return false
}

func chainOK(e ast.Expr) bool {
	switch x := e.(type) {
	case *ast.Ident:
		return true
	case *ast.ParenExpr:
		return chainOK(x.X)
	case *ast.SelectorExpr:
		return chainOK(x.X)
	case *ast.StarExpr:
		return chainOK(x.X)
	}
	return false
}

// rangeChan rewrites `for v := range ch { body }`.
func (in *instr) rangeChan(st *ast.RangeStmt, withY bool) []ast.Stmt {
	pos := st.Pos()
	in.exprs(st.X)
	ch := in.tmp("ch")
	tk := in.tmp("tk")
	ok := in.tmp("ok")
	var recvLhs []ast.Expr
	tok := token.DEFINE
	if st.Key != nil { // for v := range ch: Key is the value variable
		recvLhs = []ast.Expr{st.Key, ok}
		if st.Tok == token.ASSIGN {
			// v is an existing variable: receive into a temporary, then assign
			tv := in.tmp("rv")
			recvLhs = []ast.Expr{tv, ok}
			in.block(st.Body)
			body := []ast.Stmt{
				&ast.AssignStmt{Lhs: []ast.Expr{tk}, Tok: token.DEFINE, Rhs: []ast.Expr{simCall("B", in.site(pos, "range-recv"))}},
				&ast.AssignStmt{Lhs: recvLhs, Tok: token.DEFINE, Rhs: []ast.Expr{&ast.UnaryExpr{Op: token.ARROW, X: ch}}},
				&ast.ExprStmt{X: simCall("U", tk)},
				&ast.IfStmt{Cond: &ast.UnaryExpr{Op: token.NOT, X: ok}, Body: &ast.BlockStmt{List: []ast.Stmt{&ast.BranchStmt{Tok: token.BREAK}}}},
				&ast.AssignStmt{Lhs: []ast.Expr{st.Key}, Tok: token.ASSIGN, Rhs: []ast.Expr{tv}},
			}
			body = append(body, st.Body.List...)
			loop := &ast.ForStmt{Body: &ast.BlockStmt{List: body}}
			return in.withY(withY, pos, "for", &ast.AssignStmt{Lhs: []ast.Expr{ch}, Tok: token.DEFINE, Rhs: []ast.Expr{st.X}}, loop)
		}
	} else {
		recvLhs = []ast.Expr{ast.NewIdent("_"), ok}
	}
	if id, isId := st.Key.(*ast.Ident); sharedLoopVars && st.Key != nil && isId && id.Name != "_" {
		// { ch := X; v := simrt.ZeroOfChan(ch); for { tk := B; rv, ok := <-ch; U(tk); if !ok { break }; v = rv; body } }
		tv := in.tmp("rv")
		in.block(st.Body)
		body := []ast.Stmt{
			&ast.AssignStmt{Lhs: []ast.Expr{tk}, Tok: token.DEFINE, Rhs: []ast.Expr{simCall("B", in.site(pos, "range-recv"))}},
			&ast.AssignStmt{Lhs: []ast.Expr{tv, ok}, Tok: token.DEFINE, Rhs: []ast.Expr{&ast.UnaryExpr{Op: token.ARROW, X: ch}}},
			&ast.ExprStmt{X: simCall("U", tk)},
			&ast.IfStmt{Cond: &ast.UnaryExpr{Op: token.NOT, X: ok}, Body: &ast.BlockStmt{List: []ast.Stmt{&ast.BranchStmt{Tok: token.BREAK}}}},
			&ast.AssignStmt{Lhs: []ast.Expr{ast.NewIdent(id.Name)}, Tok: token.ASSIGN, Rhs: []ast.Expr{tv}},
		}
		body = append(body, st.Body.List...)
		loop := &ast.ForStmt{Body: &ast.BlockStmt{List: body}}
		blk := &ast.BlockStmt{List: []ast.Stmt{
			&ast.AssignStmt{Lhs: []ast.Expr{ch}, Tok: token.DEFINE, Rhs: []ast.Expr{st.X}},
			&ast.AssignStmt{Lhs: []ast.Expr{ast.NewIdent(id.Name)}, Tok: token.DEFINE, Rhs: []ast.Expr{simCall("ZeroOfChan", ch)}},
			&ast.AssignStmt{Lhs: []ast.Expr{ast.NewIdent("_")}, Tok: token.ASSIGN, Rhs: []ast.Expr{ast.NewIdent(id.Name)}},
			loop,
		}}
		rangeLoopIn[blk] = 3
		return in.withY(withY, pos, "for", blk)
	}
	in.block(st.Body)
	body := []ast.Stmt{
		&ast.AssignStmt{Lhs: []ast.Expr{tk}, Tok: token.DEFINE, Rhs: []ast.Expr{simCall("B", in.site(pos, "range-recv"))}},
		&ast.AssignStmt{Lhs: recvLhs, Tok: tok, Rhs: []ast.Expr{&ast.UnaryExpr{Op: token.ARROW, X: ch}}},
		&ast.ExprStmt{X: simCall("U", tk)},
		&ast.IfStmt{Cond: &ast.UnaryExpr{Op: token.NOT, X: ok}, Body: &ast.BlockStmt{List: []ast.Stmt{&ast.BranchStmt{Tok: token.BREAK}}}},
	}
	if id, isId := st.Key.(*ast.Ident); st.Key != nil && isId && id.Name != "_" {
		// keep "declared and not used" away when the body ignores the variable
		body = append(body, &ast.AssignStmt{Lhs: []ast.Expr{ast.NewIdent("_")}, Tok: token.ASSIGN, Rhs: []ast.Expr{ast.NewIdent(id.Name)}})
	}
	body = append(body, st.Body.List...)
	loop := &ast.ForStmt{Body: &ast.BlockStmt{List: body}}
	return in.withY(withY, pos, "for", &ast.AssignStmt{Lhs: []ast.Expr{ch}, Tok: token.DEFINE, Rhs: []ast.Expr{st.X}}, loop)
}

func unparen(e ast.Expr) ast.Expr {
	for {
		p, ok := e.(*ast.ParenExpr)
		if !ok {
			return e
		}
		e = p.X
	}
}

// selectStmt rewrites a select statement so that the simulator, not the Go runtime, decides which of several
// ready cases is taken (the runtime picks pseudo-randomly, which would not replay):
//
//	<operands hoisted into temporaries, evaluated once, in source order>
//	tk := simrt.B(site)                      // yield point before the operation
//	<fresh timers are created here, after the yield point>
//	_v0 := simrt.ZeroOfChan(c0); _ok0 := false   // one pair per receive case
//	_sel := -1
//	_st := simrt.SelStart(site, n)           // tape: which case is polled first (0 outside a simulation)
//	for _p := 0; _p < n && _sel < 0; _p++ {
//		switch (_st + _p) % n {
//		case 0: select { case _v0, _ok0 = <-c0: _sel = 0; default: }
//		case 1: select { case c1 <- x1: _sel = 1; default: }
//		}
//	}
//	if _sel < 0 { select { case _v0, _ok0 = <-c0: _sel = 0; case c1 <- x1: _sel = 1; [default: _sel = n] } }
//	simrt.U(tk)                              // post-operation gate
//	switch _sel { case 0: v, ok := _v0, _ok0; body0  case 1: body1  case n: default body }
//
// Every behaviour of the rewritten statement is a behaviour of the original (any ready case may be chosen; if
// none is ready the original blocking select runs). `break` inside a clause body leaves the switch as it left
// the select.
func (in *instr) selectStmt(st *ast.SelectStmt, withY bool) []ast.Stmt {
	pos := st.Pos()
	var pre, preTimers []ast.Stmt
	hoist := func(e ast.Expr) ast.Expr {
		in.exprs(e)
		if tv, ok := in.info.Types[e]; ok && (tv.Value != nil || tv.IsNil()) {
			return e // constants and nil keep their untyped form
		}
		t := in.tmp("c")
		as := &ast.AssignStmt{Lhs: []ast.Expr{t}, Tok: token.DEFINE, Rhs: []ast.Expr{e}}
		if containsCall(e) && in.isTimeCall(e) {
			// a fresh timer must be created after the yield point of B: otherwise virtual time could
			// pass between its creation and the select
			preTimers = append(preTimers, as)
		} else {
			pre = append(pre, as)
		}
		return t
	}
	if len(st.Body.List) == 0 {
		pre = append(pre, &ast.ExprStmt{X: simCall("B", in.site(pos, "select"))})
		return in.withYown(pre, st)
	}
	type selCase struct {
		cc      *ast.CommClause
		send    *ast.SendStmt // send case
		ch      ast.Expr      // receive case: hoisted channel
		v, ok   *ast.Ident    // receive temporaries
		lhs     []ast.Expr    // original left-hand side of a receive (nil: value discarded)
		define  bool
		isDeflt bool
	}
	var cases []*selCase
	hasSend, hasDefault := false, false
	for _, c := range st.Body.List {
		cc := c.(*ast.CommClause)
		sc := &selCase{cc: cc}
		recv := func(e ast.Expr) {
			u, ok := unparen(e).(*ast.UnaryExpr)
			if !ok || u.Op != token.ARROW {
				in.errorf(e.Pos(), "unexpected select receive form")
				return
			}
			sc.ch = hoist(u.X)
		}
		switch comm := cc.Comm.(type) {
		case nil:
			sc.isDeflt = true
			hasDefault = true
		case *ast.SendStmt:
			comm.Chan = hoist(comm.Chan)
			comm.Value = hoist(comm.Value)
			sc.send = comm
			hasSend = true
		case *ast.ExprStmt:
			recv(comm.X)
		case *ast.AssignStmt:
			if len(comm.Rhs) != 1 {
				in.errorf(comm.Pos(), "unexpected select assignment form")
				continue
			}
			recv(comm.Rhs[0])
			sc.lhs = comm.Lhs
			sc.define = comm.Tok == token.DEFINE
			if !sc.define {
				for _, l := range comm.Lhs {
					in.exprs(l)
				}
			}
		default:
			in.errorf(cc.Pos(), "unexpected select comm %T", comm)
		}
		cases = append(cases, sc)
	}
	site := in.site(pos, "select")
	tk := in.tmp("tk")
	pre = append(pre, &ast.AssignStmt{Lhs: []ast.Expr{tk}, Tok: token.DEFINE, Rhs: []ast.Expr{simCall("B", site)}})
	if hasSend && !hasDefault {
		// a blocked send case panics when its channel gets closed, skipping the clause bodies
		pre = append(pre, &ast.DeferStmt{Call: simCall("UP", tk)})
	}
	pre = append(pre, preTimers...)
	sel := in.tmp("sel")
	n := 0
	for _, sc := range cases {
		if sc.isDeflt {
			continue
		}
		n++
		if sc.ch != nil {
			sc.v, sc.ok = in.tmp("v"), in.tmp("ok")
			pre = append(pre,
				&ast.AssignStmt{Lhs: []ast.Expr{sc.v}, Tok: token.DEFINE, Rhs: []ast.Expr{simCall("ZeroOfChan", sc.ch)}},
				&ast.AssignStmt{Lhs: []ast.Expr{sc.ok}, Tok: token.DEFINE, Rhs: []ast.Expr{ast.NewIdent("false")}},
				&ast.AssignStmt{Lhs: []ast.Expr{ast.NewIdent("_"), ast.NewIdent("_")}, Tok: token.ASSIGN, Rhs: []ast.Expr{sc.v, sc.ok}})
		}
	}
	intLit := func(i int) ast.Expr { return &ast.BasicLit{Kind: token.INT, Value: fmt.Sprint(i)} }
	pre = append(pre, &ast.AssignStmt{Lhs: []ast.Expr{sel}, Tok: token.DEFINE, Rhs: []ast.Expr{&ast.UnaryExpr{Op: token.SUB, X: intLit(1)}}})
	// the communication of case i with `_sel = i` as its body
	commOf := func(sc *selCase, idx int) *ast.CommClause {
		var comm ast.Stmt
		if sc.send != nil {
			comm = &ast.SendStmt{Chan: sc.send.Chan, Value: sc.send.Value}
		} else {
			comm = &ast.AssignStmt{Lhs: []ast.Expr{sc.v, sc.ok}, Tok: token.ASSIGN, Rhs: []ast.Expr{&ast.UnaryExpr{Op: token.ARROW, X: sc.ch}}}
		}
		return &ast.CommClause{Comm: comm, Body: []ast.Stmt{&ast.AssignStmt{Lhs: []ast.Expr{sel}, Tok: token.ASSIGN, Rhs: []ast.Expr{intLit(idx)}}}}
	}
	if n >= 1 {
		stv, pv := in.tmp("st"), in.tmp("p")
		pre = append(pre, &ast.AssignStmt{Lhs: []ast.Expr{stv}, Tok: token.DEFINE, Rhs: []ast.Expr{simCall("SelStart", site, intLit(n))}})
		var pollCases []ast.Stmt
		idx := 0
		for _, sc := range cases {
			if sc.isDeflt {
				continue
			}
			poll := &ast.SelectStmt{Body: &ast.BlockStmt{List: []ast.Stmt{commOf(sc, idx), &ast.CommClause{}}}}
			pollCases = append(pollCases, &ast.CaseClause{List: []ast.Expr{intLit(idx)}, Body: []ast.Stmt{poll}})
			idx++
		}
		loop := &ast.ForStmt{
			Init: &ast.AssignStmt{Lhs: []ast.Expr{pv}, Tok: token.DEFINE, Rhs: []ast.Expr{intLit(0)}},
			Cond: &ast.BinaryExpr{X: &ast.BinaryExpr{X: pv, Op: token.LSS, Y: intLit(n)}, Op: token.LAND, Y: &ast.BinaryExpr{X: sel, Op: token.LSS, Y: intLit(0)}},
			Post: &ast.IncDecStmt{X: pv, Tok: token.INC},
			Body: &ast.BlockStmt{List: []ast.Stmt{&ast.SwitchStmt{
				Tag:  &ast.BinaryExpr{X: &ast.ParenExpr{X: &ast.BinaryExpr{X: stv, Op: token.ADD, Y: pv}}, Op: token.REM, Y: intLit(n)},
				Body: &ast.BlockStmt{List: pollCases},
			}}},
		}
		pre = append(pre, loop)
	}
	// nothing was ready: the original (blocking, or default) select
	var blocking []ast.Stmt
	idx := 0
	for _, sc := range cases {
		if sc.isDeflt {
			blocking = append(blocking, &ast.CommClause{Body: []ast.Stmt{&ast.AssignStmt{Lhs: []ast.Expr{sel}, Tok: token.ASSIGN, Rhs: []ast.Expr{intLit(n)}}}})
			continue
		}
		blocking = append(blocking, commOf(sc, idx))
		idx++
	}
	pre = append(pre, &ast.IfStmt{Cond: &ast.BinaryExpr{X: sel, Op: token.LSS, Y: intLit(0)},
		Body: &ast.BlockStmt{List: []ast.Stmt{&ast.SelectStmt{Body: &ast.BlockStmt{List: blocking}}}}})
	pre = append(pre, &ast.ExprStmt{X: simCall("U", tk)})
	// the clause bodies
	var bodies []ast.Stmt
	idx = 0
	for _, sc := range cases {
		body := in.list(sc.cc.Body)
		var head []ast.Stmt
		k := n
		if !sc.isDeflt {
			k = idx
			idx++
			if len(sc.lhs) > 0 {
				rhs := []ast.Expr{sc.v, sc.ok}[:len(sc.lhs)]
				tok := token.ASSIGN
				if sc.define {
					tok = token.DEFINE
				}
				head = append(head, &ast.AssignStmt{Lhs: sc.lhs, Tok: tok, Rhs: rhs})
			}
		}
		bodies = append(bodies, &ast.CaseClause{List: []ast.Expr{intLit(k)}, Body: append(head, body...)})
	}
	// (a default clause ending in panic keeps the statement "terminating" where the select was)
	bodies = append(bodies, &ast.CaseClause{Body: []ast.Stmt{&ast.ExprStmt{X: &ast.CallExpr{Fun: ast.NewIdent("panic"), Args: []ast.Expr{&ast.BasicLit{Kind: token.STRING, Value: `"simrt: unreachable select outcome"`}}}}}})
	main := &ast.SwitchStmt{Tag: sel, Body: &ast.BlockStmt{List: bodies}}
	return in.withYown(pre, main)
}

func (in *instr) withYown(pre []ast.Stmt, main ast.Stmt) []ast.Stmt {
	return append(pre, main)
}

// goStmt rewrites `go f(args)`.
func (in *instr) goStmt(st *ast.GoStmt) ([]ast.Stmt, ast.Stmt) {
	pos := st.Pos()
	call := st.Call
	var pre []ast.Stmt
	// arguments are evaluated at the go statement
	var args []ast.Expr
	for _, a := range call.Args {
		in.exprs(a)
		if containsRecv(a) {
			in.errorf(a.Pos(), "channel receive in go statement argument")
		}
		t := in.tmp("a")
		pre = append(pre, &ast.AssignStmt{Lhs: []ast.Expr{t}, Tok: token.DEFINE, Rhs: []ast.Expr{a}})
		args = append(args, t)
	}
	var fun ast.Expr
	switch f := unparen(call.Fun).(type) {
	case *ast.FuncLit:
		in.exprs(f)
		fun = f
	default:
		in.exprs(call.Fun)
		t := in.tmp("f")
		pre = append(pre, &ast.AssignStmt{Lhs: []ast.Expr{t}, Tok: token.DEFINE, Rhs: []ast.Expr{call.Fun}})
		fun = t
	}
	site := in.site(pos, "go")
	var body []ast.Stmt
	if fl, ok := fun.(*ast.FuncLit); ok && len(args) == 0 && countFields(fl.Type.Params) == 0 && countFields(fl.Type.Results) == 0 {
		return pre, &ast.ExprStmt{X: simCall("Go", site, fl)}
	}
	inner := &ast.CallExpr{Fun: fun, Args: args, Ellipsis: call.Ellipsis}
	if call.Ellipsis.IsValid() {
		inner.Ellipsis = 1
	}
	body = append(body, &ast.ExprStmt{X: inner})
	wrapper := &ast.FuncLit{Type: &ast.FuncType{Params: &ast.FieldList{}}, Body: &ast.BlockStmt{List: body}}
	return pre, &ast.ExprStmt{X: simCall("Go", site, wrapper)}
}

var _ = sort.Strings
