#!/bin/sh
# usage: tools/runmutants.sh [glob]   — runs every mutant of the catalogue against its property's quick check
V=${VERIF_DIR:-/verif}; cd $V
for f in mutants/${1:-*}.patch; do
  b=$(basename "$f" .patch); p=${b%%-*}
  out=$(tools/trymutant.sh "$p" "$f" 2>&1)
  n=$(echo "$out" | grep -c "^  violation class")
  if [ "$n" -gt 0 ]; then echo "CAUGHT  $b  ($n classes: $(echo "$out" | grep "violation class" | head -2 | sed 's/.*violation class //' | tr '\n' ';' | cut -c1-150))"; else echo "MISSED  $b  :: $(echo "$out" | tail -1)"; fi
done
