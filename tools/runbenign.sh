#!/bin/sh
# Behaviour-preserving refactorings (mutants/benign/<props>__<name>.patch): every listed property's quick check
# must stay quiet (exit 0, no VIOLATION) — guards against oracles that encode implementation details.
V=${VERIF_DIR:-/verif}; cd $V
for f in mutants/benign/${1:-*}.patch; do
  b=$(basename "$f" .patch); props=$(echo "${b%%__*}" | tr '+' ' ')
  for p in $props; do
    out=$(tools/trymutant.sh "$p" "$f" 2>&1)
    n=$(echo "$out" | grep -c "^  violation class")
    if [ "$n" -gt 0 ] || echo "$out" | grep -qE "NONDET|tool|watchdog|failed"; then echo "ALARM   $b [$p] :: $(echo "$out" | head -3 | tr '\n' ';' | cut -c1-300)"; else echo "quiet   $b [$p] :: $(echo "$out" | tail -1 | cut -c1-110)"; fi
  done
done
