#!/bin/sh
# usage: tools/runall.sh quick|thorough   — runs every registered check of that tier, sequentially
TIER=${1:-quick}
V=${VERIF_DIR:-/verif}; cd $V
rc=0
for p in $(python3 -c "import json;print(' '.join(c['property_id'] for c in json.load(open('MANIFEST.json'))['checks']))"); do
  VERIF_TIER=$TIER bin/simcheck run -property $p -tier $TIER 2>&1 | grep -E "^simcheck: (C[0-9]|search|tool|worker|build)|VIOLATION|KNOWN-FINDING|NONDET|WARNING: |tool error|watchdog|failed"
  r=$?
done
