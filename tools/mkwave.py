#!/usr/bin/env python3
"""Prepares a wave of seeded-change agents: tools/mkwave.py <suffix>
Creates a scratch worktree /tmp/mut/C??<suffix> of /repo per claimed property with _out/PROPERTY.txt (property text +
the list of already seeded ideas to avoid) and copies the agent prompt to /tmp/mut/PROMPT2.txt. Each agent is then started
with: "Read /tmp/mut/PROMPT2.txt and follow it, substituting __WT__ = /tmp/mut/<id>"; results are processed with
tools/seeded_batch.sh <suffix>."""
import json, subprocess, os, glob, sys, shutil
suffix = sys.argv[1]
V = os.environ.get("VERIF_DIR", "/verif")
os.makedirs("/tmp/mut", exist_ok=True)
shutil.copy(os.path.join(V, "tools/seed_prompt.txt"), "/tmp/mut/PROMPT2.txt")
props = {}
for l in open(os.path.join(V, "properties.jsonl")):
    p = json.loads(l); props[p["id"]] = p
tried = {}
for f in sorted(glob.glob(os.path.join(V, "seeded/*/meta.json"))):
    m = json.load(open(f)); tried.setdefault(m["breaks_property"], []).append(m["change"])
claimed = [c["property_id"] for c in json.load(open(os.path.join(V, "MANIFEST.json")))["checks"]]
for pid in claimed:
    wt = "/tmp/mut/%s%s" % (pid, suffix)
    subprocess.check_call(["git", "-C", "/repo", "worktree", "add", "-q", "--detach", wt, "HEAD"])
    os.makedirs(wt + "/_out", exist_ok=True)
    p = props[pid]
    ex = "\n".join("  - " + t for t in tried.get(pid, []))
    open(wt + "/_out/PROPERTY.txt", "w").write(f"""Property {pid}: {p['title']}

Statement: {p['statement']}

Quantifier: {p['quantifier']['text']}

Why the existing tests cannot settle it: {p['why_tests_cant']}

Files the property is anchored in: {', '.join(p['anchors']['files'])}

Focus for your change: other people have already seeded the changes listed below for this property; yours must be a DIFFERENT idea (different mechanism, different clause of the statement, or a different part of the API surface that the statement covers). First list the exported functions/methods of the anchored files and prefer one that none of the earlier ideas below touches. This round, aim (again - earlier ideas of this kind are listed below, yours must differ) at COMBINATIONS OF LIBRARY PIECES as a user composes them (read README.md, the doc comments and how *_test.go uses the API): Actor + Ask + Handler; Cor + MonadIO + Handler (YieldFromIO, DoNotation); WorkerPool + BufferedChannelQueue + Invokable; Publisher + Map + Handler; SimpleAPI + SimpleHTTP + interceptors + MonadIO (Eval vs Subscribe, ObserveOn/SubscribeOn); ConcurrentQueue/Stack over the different queue kinds; Stream/Set/Maybe helpers used by the anchored code. Pick a combination of two or three pieces that the property statement still covers and break the property ONLY in that combination (each piece on its own, and the combination the existing tests use, keep working) - e.g. by changing a helper both pieces share, a default one piece hands to the other, or an assumption one piece makes about the other's goroutine, channel capacity, ownership, lifetime or close order. Prefer a change inside the files this property is anchored in. Make sure the change really contradicts the statement as written (quote the clause it breaks in your NOTES.md) and is not merely a behaviour change the statement does not talk about. Prefer bugs that need a rare combination: a particular interleaving AND a particular configuration, two edits that are each harmless alone, or state that only goes wrong on the second/third use of the same object. Also consider code the anchored files DEPEND on (helpers in other files of the library that the anchored code calls), constructor variants, getters/setters and zero/negative/huge parameter values that the earlier ideas did not touch; setters or configuration changed while the object is in use; one object, option value or caller-owned slice/map reused across several calls; error, timeout, cancellation and already-closed paths; nil callbacks.
{ex}
""")
print("prepared", len(claimed), "worktrees with suffix", suffix)
