#!/usr/bin/env python3
"""Prepares a wave of seeded-change agents: tools/mkwave.py <suffix>
Creates a scratch worktree /tmp/mut/C??<suffix> of /repo per claimed property with _out/PROPERTY.txt (property text +
the list of already seeded ideas to avoid) and copies the agent prompt to /tmp/mut/PROMPT2.txt. Each agent is then started
with: "Read /tmp/mut/PROMPT2.txt and follow it, substituting __WT__ = /tmp/mut/<id>"; results are processed with
tools/seeded_batch.sh <suffix>."""
import json, subprocess, os, glob, sys, shutil
suffix = sys.argv[1]
V = os.environ.get("VERIF_DIR", "/verif")
os.makedirs("/tmp/mut", exist_ok=True)
shutil.copy(os.path.join(V, "tools/seed_prompt.txt"), "/tmp/mut/PROMPT2.txt")
props = {}
for l in open(os.path.join(V, "properties.jsonl")):
    p = json.loads(l); props[p["id"]] = p
tried = {}
for f in sorted(glob.glob(os.path.join(V, "seeded/*/meta.json"))):
    m = json.load(open(f)); tried.setdefault(m["breaks_property"], []).append(m["change"])
claimed = [c["property_id"] for c in json.load(open(os.path.join(V, "MANIFEST.json")))["checks"]]
for pid in claimed:
    wt = "/tmp/mut/%s%s" % (pid, suffix)
    subprocess.check_call(["git", "-C", "/repo", "worktree", "add", "-q", "--detach", wt, "HEAD"])
    os.makedirs(wt + "/_out", exist_ok=True)
    p = props[pid]
    ex = "\n".join("  - " + t for t in tried.get(pid, []))
    open(wt + "/_out/PROPERTY.txt", "w").write(f"""Property {pid}: {p['title']}

Statement: {p['statement']}

Quantifier: {p['quantifier']['text']}

Why the existing tests cannot settle it: {p['why_tests_cant']}

Files the property is anchored in: {', '.join(p['anchors']['files'])}

Focus for your change: other people have already seeded the changes listed below for this property; yours must be a DIFFERENT idea (different mechanism, different clause of the statement, or a different part of the API surface that the statement covers). First list the exported functions/methods of the anchored files and prefer one that none of the earlier ideas below touches. This round, aim (again - many earlier ideas of this kind are listed below, yours must differ) at UNUSUAL BUT LEGAL USE that the statement's quantifier still covers and that a test author would not think of: the same object passed or registered twice (aliasing), a caller-owned slice/map/pointer/channel mutated, reused or closed after the call, pointer identity versus deep equality, values that look like 'absent' (0, "", nil inside an interface, empty slice versus nil slice, typed nil, zero-valued struct), extreme but valid sizes, counts and durations (0, 1, negative, MaxInt, MaxInt64 nanoseconds), keys/strings with unusual characters, a callback that calls back into the same object (re-entrancy), an object used through two different wrappers or interfaces at once, a zero-value receiver (var x T; x.Method()), the method-style constructors on the utility instances versus the generic constructor functions, getters called while the object is busy, calls in an unusual but allowed ORDER (configure after first use, close twice, start twice, use before start). The change itself should look like an ordinary optimisation, clean-up or hardening, and go wrong only for such a use. Make sure the change really contradicts the statement as written (quote the clause it breaks in your NOTES.md) and is not merely a behaviour change the statement does not talk about. Prefer bugs that need a rare combination: a particular interleaving AND a particular configuration, two edits that are each harmless alone, or state that only goes wrong on the second/third use of the same object. Also consider code the anchored files DEPEND on (helpers in other files of the library that the anchored code calls), constructor variants, getters/setters and zero/negative/huge parameter values that the earlier ideas did not touch; setters or configuration changed while the object is in use; one object, option value or caller-owned slice/map reused across several calls; error, timeout, cancellation and already-closed paths; nil callbacks.
{ex}
""")
print("prepared", len(claimed), "worktrees with suffix", suffix)
